"""Declaration-heavy valid C99 programs for C28 (front-ends fail only with diagnostics).

The programs are never executed, so the generator only has to keep them
*valid* (gcc -fsyntax-only -std=c99 -pedantic-errors is the filter), not free of
run-time UB.  Everything is built from named features; `avoid` is a set of
feature switches (derived from the open findings of C28) that turns single
constructs off.  Each program reports the features it used.

Integer constant expressions (initialisers, enumerators, array bounds,
bit-field widths, case labels) come from vlib/cexprgen.py, including values
that are out of range for their destination.
"""
from vlib import cexprgen as G

INT_TYPES = ["char", "signed char", "unsigned char", "short", "unsigned short", "int", "unsigned",
             "long", "unsigned long", "long long", "unsigned long long"]
TKEY = {"char": "char", "signed char": "schar", "unsigned char": "uchar", "short": "short",
        "unsigned short": "ushort", "int": "int", "unsigned": "uint", "long": "long",
        "unsigned long": "ulong", "long long": "llong", "unsigned long long": "ullong"}
SUBINT = ("char", "signed char", "unsigned char", "short", "unsigned short")

# feature switches that findings can turn off
A_UNNAMED_BITFIELD = "unnamed-bitfield"
A_ADDR_OFFSET = "address-constant-with-offset"
A_NARROW = "narrow-int-mul-div-neg-and-float-casts"   # same switch as in c28gen
A_SMALL_STACK_PARAM = "seventh-parameter-narrower-than-int"
A_NOT_CONST = "logical-not-of-constant-at-run-time"


class Prog:
    def __init__(self, r, avoid=(), cexpr_avoid=(), prefix=""):
        self.r = r
        self.prefix = prefix   # makes every file-scope name unique, so programs can share one gcc run
        self.avoid = frozenset(avoid)
        self.cavoid = frozenset(cexpr_avoid)
        self.n = 0
        self.top = []          # top-level text chunks
        self.features = set()
        self.typedefs = []     # (name, base int type spelling)
        self.structs = []      # (tag, [(field name, kind, type)]) kind: int|arr|struct
        self.enums = []        # enumerator names
        self.gints = []        # (name, type spelling) integer globals
        self.garrs = []        # (name, type, length)
        self.gstructs = []     # (name, tag)
        self.funcs = []        # (name, ret type, [param types])
        self.cg = G.Gen(r, self.cavoid)

    def uid(self, p):
        self.n += 1
        return "%s%s%d" % (self.prefix, p, self.n)

    def feat(self, f):
        self.features.add(f)

    def inttype(self):
        r = self.r
        if self.typedefs and r.random() < 0.25:
            self.feat("typedef-use")
            return r.choice(self.typedefs)[0]
        return r.choice(INT_TYPES)

    def base_of(self, t):
        for name, base in self.typedefs:
            if name == t:
                return base
        return t

    def cexpr(self, lo=None, hi=None):
        e = self.cg.expr(lo=lo, hi=hi)
        self.feat("const-expr")
        for op, _ in e.ops:
            self.feat("cx:" + op)
        return e

    def init_for(self, t):
        """Constant initialiser for integer type t: may be out of range unless switched off."""
        key = TKEY[self.base_of(t)]
        for _ in range(20):
            e = self.cexpr()
            if not G.fits(e.value, key):
                if G.K_PACK in self.cavoid:
                    continue
                self.feat("init-out-of-range")
            return e.text
        return "1"

    # ---- top-level declarations ----------------------------------------------------
    def gen_typedef(self):
        r = self.r
        name = self.uid("T")
        base = self.inttype()
        self.top.append("typedef %s %s;" % (base, name))
        self.typedefs.append((name, self.base_of(base)))
        self.feat("typedef" if base in INT_TYPES else "typedef-chain")

    def gen_enum(self):
        r = self.r
        tag = self.uid("E")
        names, parts, nxt = [], [], 0
        for i in range(r.randrange(1, 5)):
            nm = "%s_%d" % (tag, i)
            if r.random() < 0.5:
                self.cg.enums = list(names)
                e = self.cexpr(lo=-(1 << 31), hi=(1 << 31) - 2)
                self.cg.enums = []
                if not -(1 << 31) <= e.value <= (1 << 31) - 2:
                    parts.append(nm)
                else:
                    parts.append("%s = %s" % (nm, e.text))
                    nxt = e.value
                    self.feat("enum-explicit-value")
            else:
                parts.append(nm)
            names.append((nm, nxt))
            nxt += 1
        anon = r.random() < 0.2
        self.top.append("enum %s{ %s };" % ("" if anon else tag + " ", ", ".join(parts)))
        self.enums += names
        self.feat("enum-anonymous" if anon else "enum")
        if not anon and r.random() < 0.5:
            g = self.uid("ge")
            self.top.append("enum %s %s = %s;" % (tag, g, r.choice(names)[0]))
            self.feat("enum-typed-global")

    def gen_struct(self):
        r = self.r
        tag = self.uid("S")
        kind = "union" if r.random() < 0.2 else "struct"
        fields, lines = [], []
        for i in range(r.randrange(1, 6)):
            fn = "f%d" % i
            c = r.random()
            if c < 0.45:
                t = self.inttype()
                fields.append((fn, "int", t))
                lines.append("%s %s;" % (t, fn))
            elif c < 0.6:
                t = self.inttype()
                k = r.randrange(1, 5)
                fields.append((fn, "arr", (t, k)))
                lines.append("%s %s[%d];" % (t, fn, k))
                self.feat("array-member")
            elif c < 0.75 and kind == "struct":
                bt = r.choice(("unsigned", "int", "unsigned int", "signed int"))
                w = self.cexpr(lo=1, hi=16)
                wtxt = w.text if 1 <= w.value <= 16 else "3"
                fields.append((fn, "bit", bt))
                lines.append("%s %s : %s;" % (bt, fn, wtxt))
                self.feat("bit-field")
                if r.random() < 0.25 and A_UNNAMED_BITFIELD not in self.avoid:
                    lines.append("%s : %d;" % (bt, r.randrange(1, 5)))
                    self.feat("bit-field-unnamed")
            elif c < 0.9 and self.structs:
                st = r.choice(self.structs)
                fields.append((fn, "struct", st[0]))
                lines.append("%s %s %s;" % (st[2], st[0], fn))
                self.feat("nested-aggregate")
            elif c < 0.95:
                fields.append((fn, "ptr", tag))
                lines.append("%s %s *%s;" % (kind, tag, fn))
                self.feat("self-referential-pointer")
            else:
                t = self.inttype()
                fields.append((fn, "iptr", t))
                lines.append("%s *%s;" % (t, fn))
        self.top.append("%s %s { %s };" % (kind, tag, " ".join(lines)))
        self.structs.append((tag, fields, kind))
        self.feat(kind)
        if r.random() < 0.3:
            td = self.uid("TS")
            self.top.append("typedef %s %s %s;" % (kind, tag, td))
            self.feat("typedef-aggregate")

    def struct_init(self, st, depth=0):
        """Initializer text for struct/union st (positional or designated)."""
        r = self.r
        tag, fields, kind = st
        if kind == "union":
            fields = fields[:1] if r.random() < 0.6 else [r.choice(fields)]
            designated = fields[0] is not st[1][0] or r.random() < 0.3
        else:
            designated = r.random() < 0.3
            if r.random() < 0.3:
                fields = fields[:r.randrange(1, len(fields) + 1)]
            if designated and r.random() < 0.5:
                fields = list(fields)
                r.shuffle(fields)
        parts = []
        for fn, k, t in fields:
            if k in ("int", "bit"):
                v = self.init_for(t if k == "int" else "int") if k == "int" else self.cexpr().text
            elif k == "arr":
                n = r.randrange(1, t[1] + 1)
                v = "{%s}" % ", ".join(self.init_for(t[0]) for _ in range(n))
            elif k == "struct":
                inner = next(s for s in self.structs if s[0] == t)
                v = self.struct_init(inner, depth + 1)
            else:
                v = "0"
            parts.append((".%s = %s" % (fn, v)) if designated else v)
        if designated:
            self.feat("designated-initializer")
        self.feat("aggregate-initializer")
        return "{%s}" % ", ".join(parts)

    def gen_global(self):
        r = self.r
        c = r.random()
        quals = r.choice(("", "", "", "static ", "const ", "static const ", "volatile "))
        if c < 0.4:
            t = self.inttype()
            name = self.uid("g")
            if r.random() < 0.8:
                self.top.append("%s%s %s = %s;" % (quals, t, name, self.init_for(t)))
                self.feat("scalar-global-initialised")
            else:
                self.top.append("%s%s %s;" % (quals, t, name))
            if not quals or quals == "static ":
                self.gints.append((name, t))
        elif c < 0.6:
            t = self.inttype()
            name = self.uid("a")
            k = r.randrange(1, 6)
            c2 = r.random()
            if c2 < 0.3:
                dim = self.cexpr(lo=1, hi=64)
                k = dim.value if 1 <= dim.value <= 64 else k
                self.top.append("%s%s %s[%s];" % (quals, t, name, dim.text if 1 <= dim.value <= 64 else str(k)))
                self.feat("array-bound-const-expr")
            elif c2 < 0.6:
                n = r.randrange(1, k + 1)
                self.top.append("%s%s %s[%d] = {%s};" % (quals, t, name, k, ", ".join(self.init_for(t) for _ in range(n))))
                self.feat("array-initialised")
            elif c2 < 0.75:
                idx = sorted(r.sample(range(k), min(k, r.randrange(1, 3))))
                self.top.append("%s%s %s[%d] = {%s};" % (quals, t, name, k, ", ".join(
                    "[%d] = %s" % (i, self.init_for(t)) for i in idx)))
                self.feat("array-designated-initializer")
            elif c2 < 0.9:
                self.top.append("%s%s %s[] = {%s};" % (quals, t, name, ", ".join(self.init_for(t) for _ in range(k))))
                self.feat("array-size-from-initializer")
            else:
                k2 = r.randrange(1, 4)
                rows = ", ".join("{%s}" % ", ".join(self.init_for(t) for _ in range(k2)) for _ in range(k))
                self.top.append("%s%s %s[%d][%d] = {%s};" % (quals, t, name, k, k2, rows))
                self.feat("array-2d")
                return
            if not quals or quals == "static ":
                self.garrs.append((name, t, k))
        elif c < 0.8 and self.structs:
            st = r.choice(self.structs)
            name = self.uid("s")
            if r.random() < 0.75:
                self.top.append("%s%s %s %s = %s;" % (quals, st[2], st[0], name, self.struct_init(st)))
            else:
                self.top.append("%s%s %s %s;" % (quals, st[2], st[0], name))
            if (not quals or quals == "static ") and st[2] == "struct":
                self.gstructs.append((name, st[0]))
            if r.random() < 0.2:
                an = self.uid("sa")
                self.top.append("%s %s %s[2] = {%s, %s};" % (st[2], st[0], an, self.struct_init(st), self.struct_init(st)))
                self.feat("array-of-aggregates")
        elif c < 0.88:
            name = self.uid("str")
            txt = r.choice(("", "a", "hello", "a\\n", "tab\\t", "q\\\"q", "x\\\\y", "\\x41", "\\101z", "\\377", "\\200z",
                            "a\\xff", "\\376\\177\\1"))
            form = r.random()
            if form < 0.4:
                ct = r.choice(("char", "char", "unsigned char", "signed char"))
                dim = r.choice(("", "", "8"))
                self.top.append("%s%s %s[%s] = \"%s\";" % (quals, ct, name, dim, txt))
                if ct != "char":
                    self.feat("string-literal-into-%s-char-array" % ct.split()[0])
            elif form < 0.7:
                self.top.append("%schar *%s = \"%s\";" % ("const " if "const" in quals else "", name, txt))
            else:
                self.top.append("const char *%s[] = {\"%s\", \"%s\"};" % (name, txt, r.choice(("z", "", "yy"))))
            self.feat("string-literal-initializer")
        elif c < 0.96 and (self.gints or self.garrs):
            name = self.uid("p")
            if self.garrs and r.random() < 0.5:
                an, t, k = r.choice(self.garrs)
                form = r.random()
                if form < 0.4 or A_ADDR_OFFSET in self.avoid:
                    self.top.append("%s *%s = %s;" % (t, name, an))
                    self.feat("pointer-to-array-initializer")
                elif form < 0.7:
                    self.top.append("%s *%s = &%s[%d];" % (t, name, an, r.randrange(k)))
                    self.feat("address-of-element-initializer")
                else:
                    self.top.append("%s *%s = %s + %d;" % (t, name, an, r.randrange(k)))
                    self.feat("array-plus-offset-initializer")
            elif self.gints:
                gn, t = r.choice(self.gints)
                self.top.append("%s *%s = &%s;" % (t, name, gn))
                self.feat("address-of-global-initializer")
        elif r.random() < 0.6:
            # integer constant converted to a pointer (negative, huge, through a narrower integer type)
            name = self.uid("ip")
            e = self.cexpr()
            pt = r.choice(("void", "char", "int", "unsigned char"))
            via = r.choice(("", "", "(int)", "(unsigned)", "(short)", "(long)"))
            neg = r.choice(("", "-", "~"))
            if G.K_PACK in self.cavoid:
                neg, via = "", "(unsigned)"
            self.top.append("%s *%s = (%s *)%s%s(%s);" % (pt, name, pt, via, neg, e.text))
            self.feat("integer-constant-to-pointer-initializer")
        else:
            name = self.uid("np")
            self.top.append("%s *%s = 0;" % (self.inttype(), name))
            self.feat("null-pointer-initializer")

    # ---- functions -----------------------------------------------------------------
    def gen_function(self):
        r = self.r
        name = self.uid("fn")
        ret = r.choice(["void", "int", "int", "long"] + [self.inttype()])
        nparams = r.choice((0, 1, 2, 2, 3, 4, 6, 7, 8))
        params = []
        for i in range(nparams):
            t = self.inttype()
            if i >= 6 and A_SMALL_STACK_PARAM in self.avoid and self.base_of(t) in SUBINT:
                t = "int"
            if i >= 6 and self.base_of(t) in SUBINT:
                self.feat("stack-parameter-narrower-than-int")
            params.append(("p%d" % i, t))
        if nparams > 6:
            self.feat("more-than-six-parameters")
        ptr_param = None
        if r.random() < 0.3 and nparams < 6:
            ptr_param = ("pp", self.inttype())
            self.feat("pointer-parameter")
        sig = ", ".join("%s %s" % (t, n) for n, t in params)
        if ptr_param:
            sig = (sig + ", " if sig else "") + "%s *%s" % (ptr_param[1], ptr_param[0])
        sig = sig or "void"
        storage = r.choice(("", "", "static ", "static inline "))
        if r.random() < 0.15:
            self.top.append("%s%s %s(%s);" % ("static " if "static" in storage else "", ret, name, sig))
            self.feat("prototype-before-definition")
        fb = FuncBody(self, ret, list(params), ptr_param)
        body = fb.block(depth=0, top=True)
        self.feat("loop-nesting:%d" % min(fb.maxloop, 4))
        self.top.append("%s%s %s(%s) %s" % (storage, ret, name, sig, body))
        if not ptr_param:
            self.funcs.append((name, ret, [t for _, t in params]))
        self.feat("function")
        if ret == "void":
            self.feat("void-function")

    def gen_funcptr(self):
        r = self.r
        cands = [f for f in self.funcs if f[1] != "void" or True]
        if not cands:
            return
        fname, ret, pts = r.choice(cands)
        name = self.uid("fp")
        proto = ", ".join(pts) or "void"
        c = r.random()
        if c < 0.4:
            self.top.append("%s (*%s)(%s) = %s;" % (ret, name, proto, fname))
            self.feat("function-pointer-global")
        elif c < 0.7:
            td = self.uid("FP")
            self.top.append("typedef %s (*%s)(%s);" % (ret, td, proto))
            self.top.append("%s %s[2] = {%s, %s};" % (td, name, fname, r.choice((fname, "0"))))
            self.feat("function-pointer-table")
        else:
            self.top.append("%s (*%s)(%s) = &%s;" % (ret, name, proto, fname))
            self.feat("function-pointer-address-of")

    def build(self, size):
        r = self.r
        for _ in range(size):
            c = r.random()
            if c < 0.10:
                self.gen_typedef()
            elif c < 0.20:
                self.gen_enum()
            elif c < 0.35:
                self.gen_struct()
            elif c < 0.70:
                self.gen_global()
            elif c < 0.93:
                self.gen_function()
            else:
                self.gen_funcptr()
        return "\n".join(self.top) + "\n"


class FuncBody:
    def __init__(self, prog, ret, params, ptr_param):
        self.p = prog
        self.r = prog.r
        self.ret = ret
        self.vars = list(params)      # (name, type) integer lvalues in scope
        self.ptr = ptr_param
        self.labels = []
        self.nlocal = 0
        self.loop = 0
        self.switch = 0
        self.larrs = []
        self.lstructs = []
        self.maxloop = 0

    def feat(self, f):
        self.p.feat("stmt:" + f)

    # -- expressions (runtime, integer valued) --
    def lvalue(self):
        r = self.r
        cands = []
        if self.vars:
            cands.append("var")
        if self.p.gints:
            cands.append("g")
        if self.p.garrs or self.larrs:
            cands.append("arr")
        if self.p.gstructs:
            cands.append("field")
        if self.ptr:
            cands.append("deref")
        if not cands:
            return None, None
        k = r.choice(cands)
        if k == "var":
            n, t = r.choice(self.vars)
            return n, t
        if k == "g":
            n, t = r.choice(self.p.gints)
            return n, t
        if k == "arr":
            n, t, ln = r.choice(self.p.garrs + self.larrs)
            self.p.feat("expr:array-index")
            return "%s[%s]" % (n, r.randrange(ln) if r.random() < 0.6 or not self.vars else
                               "%s & %d" % (r.choice(self.vars)[0], 0)), t
        if k == "field":
            n, tag = r.choice(self.p.gstructs)
            st = next(s for s in self.p.structs if s[0] == tag)
            fs = [f for f in st[1] if f[1] in ("int", "bit")]
            if not fs:
                return self.lvalue() if self.vars else (None, None)
            fn, kind, t = r.choice(fs)
            self.p.feat("expr:member-access" if kind == "int" else "expr:bit-field-access")
            return "%s.%s" % (n, fn), (t if kind == "int" else "int")
        self.p.feat("expr:deref")
        return r.choice(("*%s", "%s[0]")) % self.ptr[0], self.ptr[1]

    def atom(self):
        r = self.r
        c = r.random()
        if c < 0.45:
            lv, t = self.lvalue()
            if lv:
                return lv, t
        if c < 0.55 and self.p.enums:
            self.p.feat("expr:enumerator")
            return r.choice(self.p.enums)[0], "int"
        if c < 0.62:
            self.p.feat("expr:sizeof")
            return "(int)sizeof(%s)" % r.choice(INT_TYPES), "int"
        if c < 0.68:
            return r.choice(("'a'", "'\\n'", "'\\0'")), "int"
        v = r.choice((0, 1, 2, 3, 7, 8, 255, 256, 65535, 2147483647))
        return str(v) + r.choice(("", "", "", "u", "l", "ul")), "int"

    def expr(self, depth=2):
        r = self.r
        if depth <= 0 or r.random() < 0.25:
            return self.atom()[0]
        c = r.random()
        if c < 0.55:
            op = r.choice(("+", "-", "*", "/", "%", "<<", ">>", "&", "|", "^", "<", "<=", ">", ">=", "==", "!=",
                           "&&", "||"))
            self.p.feat("expr:" + op)
            b = self.expr(depth - 1)
            if op in ("<<", ">>"):
                b = str(r.randrange(0, 8))
            return "(%s %s %s)" % (self.expr(depth - 1), op, b)
        if c < 0.70:
            op = r.choice(("-", "~", "!", "+"))
            a, t = self.atom() if r.random() < 0.5 else (self.expr(depth - 1), "?")
            if op == "!":
                if A_NOT_CONST in self.p.avoid:
                    lv, lt = self.lvalue()
                    if lv is None:
                        op = "+"
                    else:
                        a, t = lv, lt
                elif t == "int" or t == "?":
                    self.p.feat("expr:not-of-possibly-constant")
            if op in "-~" and (t == "?" or self.p.base_of(t) in SUBINT or a.startswith("'")):
                self.p.feat("expr:unary-on-sub-int")
            self.p.feat("expr:unary" + op)
            return "(%s(%s))" % (op, a) if a.startswith(("-", "+")) else "(%s%s)" % (op, a)
        if c < 0.80:
            self.p.feat("expr:?:")
            return "(%s ? %s : %s)" % (self.expr(depth - 1), self.expr(depth - 1), self.expr(depth - 1))
        if c < 0.88:
            t = r.choice(INT_TYPES)
            self.p.feat("expr:cast")
            return "((%s)%s)" % (t, self.expr(depth - 1))
        if c < 0.96 and self.p.funcs:
            fname, ret, pts = r.choice(self.p.funcs)
            if ret != "void":
                self.p.feat("expr:call")
                return "%s(%s)" % (fname, ", ".join(self.expr(depth - 1) for _ in pts))
        return "(%s, %s)" % (self.expr(depth - 1), self.expr(depth - 1)) if r.random() < 0.3 and self._comma() \
            else self.atom()[0]

    def _comma(self):
        self.p.feat("expr:comma")
        return True

    # -- statements --
    def stmt(self, depth):
        r = self.r
        c = r.random()
        if depth >= 4:
            c = r.random() * 0.4
        if c < 0.22:
            lv, t = self.lvalue()
            if lv is None:
                return ";"
            op = r.choice(("=", "=", "=", "+=", "-=", "*=", "/=", "%=", "<<=", ">>=", "&=", "|=", "^="))
            if op in ("*=", "/=", "%=") and self.p.base_of(t) in SUBINT:
                self.p.feat("stmt:narrow-compound-mul-div")
            self.feat("assign" + op)
            rhs = self.expr() if op not in ("<<=", ">>=") else str(r.randrange(0, 8))
            return "%s %s %s;" % (lv, op, rhs)
        if c < 0.30:
            lv, t = self.lvalue()
            if lv is None:
                return ";"
            self.feat("incdec")
            return r.choice(("%s++;", "%s--;", "++%s;", "--%s;")) % lv
        if c < 0.36 and self.p.funcs:
            fname, ret, pts = r.choice(self.p.funcs)
            self.feat("call-statement")
            return "%s(%s);" % (fname, ", ".join(self.expr(1) for _ in pts))
        if c < 0.40:
            self.feat("empty")
            return ";"
        if c < 0.52:
            self.feat("if-else" if r.random() < 0.5 else "if")
            s = "if (%s) %s" % (self.expr(), self.sub(depth))
            if r.random() < 0.5:
                s += " else %s" % self.sub(depth)
            return s
        if c < 0.60:
            self.feat("while")
            self.loop += 1; self.maxloop = max(self.maxloop, self.loop)
            s = "while (%s) %s" % (self.expr(), self.sub(depth))
            self.loop -= 1
            return s
        if c < 0.66:
            self.feat("do-while")
            self.loop += 1; self.maxloop = max(self.maxloop, self.loop)
            s = "do %s while (%s);" % (self.sub(depth), self.expr())
            self.loop -= 1
            return s
        if c < 0.76:
            self.loop += 1; self.maxloop = max(self.maxloop, self.loop)
            form = r.random()
            if form < 0.4:
                self.nlocal += 1
                iv = "i%d" % self.nlocal
                self.feat("for-with-declaration")
                saved = list(self.vars)
                self.vars.append((iv, "int"))
                s = "for (int %s = 0; %s < %s; %s++) %s" % (iv, iv, self.expr(1), iv, self.sub(depth))
                self.vars = saved
            elif form < 0.8 and self.vars:
                iv = r.choice(self.vars)[0]
                self.feat("for")
                s = "for (%s = 0; %s; %s) %s" % (iv, self.expr(1), r.choice(("%s++", "++%s", "%s += 2")) % iv,
                                                 self.sub(depth))
            else:
                self.feat("for-empty-clauses")
                s = "for (;;) { %s break; }" % self.stmt(depth + 1)
            self.loop -= 1
            return s
        if c < 0.84:
            return self.gen_switch(depth)
        if c < 0.88 and self.loop:
            self.feat("break-continue")
            return r.choice(("break;", "continue;"))
        if c < 0.91 and self.switch:
            self.feat("break-in-switch")
            return "break;"
        if c < 0.95:
            self.feat("return")
            return "return;" if self.ret == "void" else "return %s;" % self.expr()
        if c < 0.98:
            self.feat("nested-block")
            return self.block(depth + 1)
        lbl = "L%d" % (len(self.labels) + 1)
        self.labels.append(lbl)
        self.feat("goto-label")
        return "goto %s;" % lbl

    def sub(self, depth):
        r = self.r
        if r.random() < 0.7:
            return self.block(depth + 1)
        s = self.stmt(depth + 1)
        if s.startswith(("int ", "L")):
            return "{ %s }" % s
        return s

    def gen_switch(self, depth):
        r = self.r
        self.switch += 1
        ctrl = self.expr(1)
        cg = self.p.cg
        seen, parts = set(), []
        for i in range(r.randrange(0, 5)):
            e = self.p.cexpr(lo=-(1 << 31), hi=(1 << 31) - 1)
            if e.value in seen or not -(1 << 31) <= e.value < (1 << 31):
                continue
            seen.add(e.value)
            body = " ".join(self.stmt(depth + 1) for _ in range(r.randrange(0, 3)))
            tail = r.choice(("break;", "break;", "", "return%s;" % ("" if self.ret == "void" else " 0")))
            if not tail:
                self.feat("switch-fallthrough")
            parts.append("case %s: %s %s" % (e.text, body or ";", tail))
            self.feat("case-const-expr")
        if r.random() < 0.7:
            dflt = "default: %s break;" % (self.stmt(depth + 1) if r.random() < 0.6 else ";")
            parts.insert(r.randrange(len(parts) + 1), dflt)
            self.feat("switch-default")
        if not parts:
            self.feat("switch-empty")
        self.switch -= 1
        self.feat("switch")
        return "switch (%s) { %s }" % (ctrl, " ".join(parts))

    def local_decl(self):
        r = self.r
        self.nlocal += 1
        c = r.random()
        if c < 0.6:
            t = self.p.inttype()
            n = "v%d" % self.nlocal
            self.feat("local-declaration")
            init = " = %s" % self.expr() if r.random() < 0.7 else ""
            q = r.choice(("", "", "const ")) if init else ""
            if not q:
                self.vars.append((n, t))
            return "%s%s %s%s;" % (q, t, n, init)
        if c < 0.8:
            t = self.p.inttype()
            n = "la%d" % self.nlocal
            k = r.randrange(1, 5)
            self.feat("local-array")
            self.larrs.append((n, t, k))
            if r.random() < 0.5:
                return "%s %s[%d] = {%s};" % (t, n, k, ", ".join(self.expr(1) for _ in range(r.randrange(1, k + 1))))
            return "%s %s[%d];" % (t, n, k)
        if c < 0.9 and self.p.structs:
            st = r.choice(self.p.structs)
            n = "ls%d" % self.nlocal
            self.feat("local-aggregate")
            if r.random() < 0.5:
                return "%s %s %s = %s;" % (st[2], st[0], n, self.p.struct_init(st))
            return "%s %s %s;" % (st[2], st[0], n)
        n = "sv%d" % self.nlocal
        self.feat("static-local")
        t = self.p.inttype()
        self.vars.append((n, t))
        return "static %s %s = %s;" % (t, n, self.p.init_for(t))

    def block(self, depth, top=False):
        r = self.r
        saved = (list(self.vars), list(self.larrs))
        out = []
        n = r.randrange(0, 5) if not top else r.randrange(0, 7)
        if n == 0:
            self.feat("empty-block")
        for _ in range(n):
            if r.random() < 0.3:
                out.append(self.local_decl())
            else:
                out.append(self.stmt(depth))
        if top:
            for lbl in self.labels:
                out.append("%s: ;" % lbl)
            if self.ret != "void":
                out.append("return %s;" % self.expr(1))
        self.vars, self.larrs = saved
        return "{ %s }" % " ".join(out)


def gen_program(r, avoid=(), cexpr_avoid=(), size=None, prefix=""):
    p = Prog(r, avoid, cexpr_avoid, prefix)
    src = p.build(size or r.randrange(6, 16))
    return src, sorted(p.features)
