"""wasmgen - seeded generator of valid WebAssembly modules (DESIGN 2.4), with an
independent binary encoder, an independent text (WAT) printer and a builder of
``ppci.wasm`` components.  Shared by C21 (round trips) and C22 (execution).

A module is a json-able *description* (dict):

    types    [[params...], [results...]]
    imports  [{"module","name","kind": func|global|memory|table, ...}]
    funcs    [{"type": typeidx, "locals": [valtype...], "body": [instr...]}]
    table    {"min","max"|None} | None          memory {"min","max"|None} | None
    globals  [{"typ","mut","init": instr}]      exports [{"name","kind","index"}]
    start    funcidx | None
    elems    [{"offset": instr, "funcs": [funcidx...]}]
    datas    [{"offset": instr, "hex": "..."}]
    custom   [{"name","hex"}]   (binary only; leading custom sections)

An instruction is a list ``[opcode, immediates...]``: ``["block", bt]`` with bt
"" or a value type (same for loop/if), ``["br", depth]``, ``["br_table",
[depths], default]``, ``["call", f]``, ``["call_indirect", typeidx]``,
``["local.get", i]``, ``["i32.load", align_log2, offset]``, ``["i32.const",
signed int]``, ``["f32.const", bits]`` / ``["f64.const", bits]`` (IEEE bit
pattern as int, so NaN payloads survive json), everything else ``[opcode]``.

Feature set = what ppci supports (ppci/wasm/opcodes.py, binary/reader.py,
wasm2ppci.py): WebAssembly 1.0 (MVP) + sign-extension operators +
saturating truncations + memory.copy/memory.fill.  EXCLUDED because ppci's
binary reader/writer or translator has no support for them (not judged):
  * block types given by a type index (multi-value blocks) and functions with
    more than one result (binary writer writes block types with write_type);
  * reference types (ref.null/ref.func/table.get/...), multiple tables,
    passive/declared element segments (reader: NotImplementedError "Post MVP");
  * passive data segments / memory.init / data.drop / datacount section;
  * SIMD (v128), threads, exceptions, tail calls, multi-memory;
  * imported memories, tables and globals in the *execution* profile (the
    native target can only link callables); they stay in the structural
    profile used by C21;
  * recursion (every call goes to a lower function index) and unbounded loops
    (every back edge is guarded by a dedicated down counter), so every
    invocation terminates within a statically bounded number of steps.

Every random decision comes from the ``random.Random`` passed in.  ``avoid`` is
a set of switches (DESIGN 3.2).  C21 passes its open finding keys directly
(nan-const-sign-payload-lost-in-text, f32-signalling-nan-const-quieted,
text-bulk-memory-immediate-unparsable, text-names-not-escaped); C22 maps its
finding keys to generator flags per target (checks/c22.py FINDINGS):
no-int-div-by-zero, no-div-s-overflow, no-rem-s-overflow,
no-trapping-trunc-out-of-range, no-mem-oob, no-call-indirect-{null,oob,sig-mismatch,trap},
no-unreachable, rounding-nonneg-finite-only, minmax-const-second-operand,
sqrt-of-abs, trunc-sat-no-nan, float-div-nonzero-divisor, float-cmp-gt-ge-only,
no-nonfinite-float-const, no-exported-float-global, no-f32-arith,
no-f32-sqrt-demote, f32-convert-i64-53bit, const-shift-count, no-i64-shift,
no-loop-in-dead-code, no-imported-func-in-elem.  Each flag replaces the free
operand of the named construct by one that is in the safe class by construction
(see FuncGen.numeric); nothing is filtered on results.
"""
import struct

I32, I64, F32, F64 = "i32", "i64", "f32", "f64"
VALTYPES = (I32, I64, F32, F64)
INTS = (I32, I64)
FLOATS = (F32, F64)


# ---------------------------------------------------------------------------
# opcode table (written from the spec's binary-format appendix, independent of
# ppci/wasm/opcodes.py)

OPC = {
    "unreachable": 0x00, "nop": 0x01, "block": 0x02, "loop": 0x03, "if": 0x04, "else": 0x05,
    "end": 0x0B, "br": 0x0C, "br_if": 0x0D, "br_table": 0x0E, "return": 0x0F, "call": 0x10,
    "call_indirect": 0x11, "drop": 0x1A, "select": 0x1B,
    "local.get": 0x20, "local.set": 0x21, "local.tee": 0x22, "global.get": 0x23, "global.set": 0x24,
    "memory.size": 0x3F, "memory.grow": 0x40,
    "i32.const": 0x41, "i64.const": 0x42, "f32.const": 0x43, "f64.const": 0x44,
}


def _seq(start, names):
    for i, n in enumerate(names):
        OPC[n] = start + i


_seq(0x28, ["i32.load", "i64.load", "f32.load", "f64.load", "i32.load8_s", "i32.load8_u", "i32.load16_s",
            "i32.load16_u", "i64.load8_s", "i64.load8_u", "i64.load16_s", "i64.load16_u", "i64.load32_s",
            "i64.load32_u", "i32.store", "i64.store", "f32.store", "f64.store", "i32.store8", "i32.store16",
            "i64.store8", "i64.store16", "i64.store32"])
_ICMP = ["eq", "ne", "lt_s", "lt_u", "gt_s", "gt_u", "le_s", "le_u", "ge_s", "ge_u"]
_FCMP = ["eq", "ne", "lt", "gt", "le", "ge"]
_IUN = ["clz", "ctz", "popcnt"]
_IBIN = ["add", "sub", "mul", "div_s", "div_u", "rem_s", "rem_u", "and", "or", "xor", "shl", "shr_s", "shr_u",
         "rotl", "rotr"]
_FUN = ["abs", "neg", "ceil", "floor", "trunc", "nearest", "sqrt"]
_FBIN = ["add", "sub", "mul", "div", "min", "max", "copysign"]
_seq(0x45, ["i32.eqz"] + ["i32." + n for n in _ICMP])
_seq(0x50, ["i64.eqz"] + ["i64." + n for n in _ICMP])
_seq(0x5B, ["f32." + n for n in _FCMP])
_seq(0x61, ["f64." + n for n in _FCMP])
_seq(0x67, ["i32." + n for n in _IUN + _IBIN])
_seq(0x79, ["i64." + n for n in _IUN + _IBIN])
_seq(0x8B, ["f32." + n for n in _FUN + _FBIN])
_seq(0x99, ["f64." + n for n in _FUN + _FBIN])
_CONV = ["i32.wrap_i64", "i32.trunc_f32_s", "i32.trunc_f32_u", "i32.trunc_f64_s", "i32.trunc_f64_u",
         "i64.extend_i32_s", "i64.extend_i32_u", "i64.trunc_f32_s", "i64.trunc_f32_u", "i64.trunc_f64_s",
         "i64.trunc_f64_u", "f32.convert_i32_s", "f32.convert_i32_u", "f32.convert_i64_s", "f32.convert_i64_u",
         "f32.demote_f64", "f64.convert_i32_s", "f64.convert_i32_u", "f64.convert_i64_s", "f64.convert_i64_u",
         "f64.promote_f32", "i32.reinterpret_f32", "i64.reinterpret_f64", "f32.reinterpret_i32",
         "f64.reinterpret_i64"]
_seq(0xA7, _CONV)
_SEXT = ["i32.extend8_s", "i32.extend16_s", "i64.extend8_s", "i64.extend16_s", "i64.extend32_s"]
_seq(0xC0, _SEXT)
_SAT = ["i32.trunc_sat_f32_s", "i32.trunc_sat_f32_u", "i32.trunc_sat_f64_s", "i32.trunc_sat_f64_u",
        "i64.trunc_sat_f32_s", "i64.trunc_sat_f32_u", "i64.trunc_sat_f64_s", "i64.trunc_sat_f64_u"]
for _i, _n in enumerate(_SAT):
    OPC[_n] = (0xFC, _i)
OPC["memory.copy"] = (0xFC, 10)
OPC["memory.fill"] = (0xFC, 11)

LOADS = {n: None for n in OPC if ".load" in n}
STORES = {n: None for n in OPC if ".store" in n}


def mem_width(op):
    """Bytes accessed by a load/store opcode."""
    t, o = op.split(".")
    for w in ("8", "16", "32"):
        if o.startswith("load" + w) or o.startswith("store" + w):
            return int(w) // 8
    return 4 if t in (I32, F32) else 8


# signatures of plain numeric operators: name -> ([operand types], result type)
SIG = {}
for _t in INTS:
    SIG[_t + ".eqz"] = ([_t], I32)
    for _n in _ICMP:
        SIG["%s.%s" % (_t, _n)] = ([_t, _t], I32)
    for _n in _IUN:
        SIG["%s.%s" % (_t, _n)] = ([_t], _t)
    for _n in _IBIN:
        SIG["%s.%s" % (_t, _n)] = ([_t, _t], _t)
for _t in FLOATS:
    for _n in _FCMP:
        SIG["%s.%s" % (_t, _n)] = ([_t, _t], I32)
    for _n in _FUN:
        SIG["%s.%s" % (_t, _n)] = ([_t], _t)
    for _n in _FBIN:
        SIG["%s.%s" % (_t, _n)] = ([_t, _t], _t)
for _n in _CONV + _SAT:
    _dst, _rest = _n.split(".")
    _src = [p for p in _rest.split("_") if p in VALTYPES][0]
    SIG[_n] = ([_src], _dst)
for _n in _SEXT:
    SIG[_n] = ([_n[:3]], _n[:3])

OPS_BY_RESULT = {t: [n for n, (a, r) in sorted(SIG.items()) if r == t] for t in VALTYPES}
TRAPPING_TRUNC = [n for n in _CONV if ".trunc_" in n]


# ---------------------------------------------------------------------------
# numbers

def f32_bits(x):
    return struct.unpack("<I", struct.pack("<f", x))[0]


def f64_bits(x):
    return struct.unpack("<Q", struct.pack("<d", x))[0]


def bits_f32(b):
    return struct.unpack("<f", struct.pack("<I", b))[0]


def bits_f64(b):
    return struct.unpack("<d", struct.pack("<Q", b))[0]


def sx(v, bits):
    v &= (1 << bits) - 1
    return v - (1 << bits) if v >> (bits - 1) else v


I32_POOL = [0, 1, -1, 2, -2, 3, 7, 8, 15, 16, 31, 32, 33, 63, 64, 65, 127, 128, 255, 256, 0x7FFF, 0x8000, 0xFFFF,
            0x10000, 0x7FFFFFFF, -0x80000000, -0x7FFFFFFF, 0x40000000, -0x40000000, 0x55555555, -0x55555556,
            100, -100, 1000000, 65535, 65536, 65532, 65528]
I64_POOL = [0, 1, -1, 2, -2, 31, 32, 33, 63, 64, 65, 127, 128, 255, 0xFFFF, 0x7FFFFFFF, 0x80000000, 0xFFFFFFFF,
            0x100000000, -0x80000000, -0x80000001, 0x7FFFFFFFFFFFFFFF, -0x8000000000000000, -0x7FFFFFFFFFFFFFFF,
            0x4000000000000000, 0x5555555555555555, 0x1000001000000001, 1 << 53, (1 << 53) + 1, -(1 << 53) - 1, 1000000007, -1000]
_F64_VALUES = [0.0, -0.0, 1.0, -1.0, 0.5, -0.5, 1.5, -1.5, 2.5, -2.5, 3.5, 0.49999999999999994, -0.49999999999999994,
               2.0, 3.0, 10.0, 0.1, -0.1, 1e-310, 5e-324, -5e-324, 1.7976931348623157e308, -1.7976931348623157e308,
               2147483647.0, 2147483648.0, -2147483648.0, -2147483649.0, 2147483647.5, -2147483648.5,
               2147483648.5, -2147483648.9, 4294967295.0, 4294967296.0, 4294967295.5, -0.9, -0.99999, -1.0000001,
               9223372036854775807.0, -9223372036854775808.0, 9223372036854774784.0, -9223372036854777856.0,
               18446744073709551615.0, 18446744073709549568.0, 1e30, -1e30, 1e10, -1e10, 4503599627370496.5,
               4503599627370497.5, 9007199254740993.0, 16777217.0, 123456.789, -123456.789, 1e-5]
F64_POOL = [f64_bits(v) for v in _F64_VALUES] + [0x7FF0000000000000, 0xFFF0000000000000, 0x7FF8000000000000]
_F32_VALUES = [0.0, -0.0, 1.0, -1.0, 0.5, -0.5, 1.5, -1.5, 2.5, -2.5, 3.5, 0.1, -0.1, 2.0, 3.0, 10.0,
               1e-45, -1e-45, 1e-40, 3.4028234663852886e38, -3.4028234663852886e38, 2147483648.0, -2147483648.0,
               2147483520.0, -2147483904.0, 4294967296.0, 4294967040.0, 9223372036854775808.0,
               -9223372036854775808.0, 9223371487098961920.0, 18446744073709551616.0, 18446742974197923840.0,
               -0.9, 16777216.0, 16777215.0, 8388608.5, 8388607.5, 1e30, -1e30, 123456.789, 0.49999997, 1e-5]
F32_POOL = [f32_bits(v) for v in _F32_VALUES] + [0x7F800000, 0xFF800000, 0x7FC00000]
# NaNs with sign / payload / signalling bit: only as *constants* (dial nan_payload)
F32_ODD_NANS = [0xFFC00000, 0x7FC00001, 0x7FA00000, 0xFF800001, 0x7FFFFFFF]
F64_ODD_NANS = [0xFFF8000000000000, 0x7FF8000000000001, 0x7FF4000000000000, 0xFFF0000000000001,
                0x7FFFFFFFFFFFFFFF]


def odd_nan_pool(t, avoid):
    """NaN constants with sign / payload / signalling bit still allowed under the avoid set."""
    if "nan-const-sign-payload-lost-in-text" in avoid:
        return []
    pool = F32_ODD_NANS if t == F32 else F64_ODD_NANS
    if t == F32 and "f32-signalling-nan-const-quieted" in avoid:
        pool = [b for b in pool if b & 0x400000]
    return pool


def rand_value(rnd, t, odd_nans=()):
    """A value of type t: ints as signed python ints, floats as bit patterns.
    odd_nans: extra NaN bit patterns (constants only)."""
    k = rnd.random()
    if t == I32:
        if k < 0.6:
            return sx(rnd.choice(I32_POOL), 32)
        if k < 0.8:
            return rnd.randint(-20, 20)
        return sx(rnd.getrandbits(32), 32)
    if t == I64:
        if k < 0.6:
            return sx(rnd.choice(I64_POOL), 64)
        if k < 0.8:
            return rnd.randint(-20, 20)
        return sx(rnd.getrandbits(64), 64)
    if t == F32:
        if odd_nans and k < 0.06:
            return rnd.choice(odd_nans)
        if k < 0.65:
            return rnd.choice(F32_POOL)
        if k < 0.85:
            return f32_bits(float(rnd.randint(-1000, 1000)) / rnd.choice([1, 2, 4, 8]))
        b = rnd.getrandbits(32)
        return 0x7FC00000 if (b & 0x7F800000) == 0x7F800000 and b & 0x7FFFFF else b
    if odd_nans and k < 0.06:
        return rnd.choice(odd_nans)
    if k < 0.65:
        return rnd.choice(F64_POOL)
    if k < 0.85:
        return f64_bits(float(rnd.randint(-1000, 1000)) / rnd.choice([1, 2, 4, 8]))
    b = rnd.getrandbits(64)
    return 0x7FF8000000000000 if (b >> 52) & 0x7FF == 0x7FF and b & ((1 << 52) - 1) else b


def const_instr(t, v):
    return [t + ".const", v]


def is_nonfinite(t, v):
    if t == F32:
        return (v >> 23) & 0xFF == 0xFF
    if t == F64:
        return (v >> 52) & 0x7FF == 0x7FF
    return False


F32_ARITH = {"f32.add", "f32.sub", "f32.mul", "f32.div", "f32.sqrt", "f32.demote_f64", "f32.convert_i32_s",
             "f32.convert_i32_u", "f32.convert_i64_s", "f32.convert_i64_u"}


def classify_value(t, v):
    """Operand class tag for the feature vector."""
    if t in INTS:
        bits = 32 if t == I32 else 64
        if v == 0:
            return "zero"
        if v == -1:
            return "minus1"
        if v == -(1 << (bits - 1)):
            return "min"
        if v == (1 << (bits - 1)) - 1:
            return "max"
        return "neg" if v < 0 else "pos"
    if t == F32:
        e, m, s = (v >> 23) & 0xFF, v & 0x7FFFFF, v >> 31
        top = 0xFF
    else:
        e, m, s = (v >> 52) & 0x7FF, v & ((1 << 52) - 1), v >> 63
        top = 0x7FF
    if e == top:
        return "nan" if m else ("-inf" if s else "+inf")
    if e == 0:
        return ("-0" if s else "+0") if m == 0 else "subnormal"
    return "fneg" if s else "fpos"


# ---------------------------------------------------------------------------
# host functions every generated module may import (module "env"); the same
# definitions exist in vlib/v8driver.js and in the ppci runner of C22.

HOST_FUNCS = {
    "hi32": ([I32], [I32]),        # x -> x ^ 0x5A5A5A5A
    "hi64": ([I64], [I64]),        # x -> x + 1 (wrapping)
    "hf64": ([F64], [F64]),        # x -> x * 0.5
    "hf32": ([F32], [F32]),        # x -> -x
    "hlog": ([I32], []),           # appends x to the host log
    "hmix": ([I32, I64, F64], [I32]),  # (a, b, c) -> a + low32(b) + (c > 0)
}


# ---------------------------------------------------------------------------
# generator

class Dials:
    """Size and feature dials of one profile."""

    def __init__(self, **kw):
        self.nfuncs = (2, 4)
        self.nparams = (0, 3)
        self.expr_depth = 4
        self.stmts = (1, 5)
        self.budget = 40            # instructions-ish per function
        self.cost_limit = 4000      # static upper bound on executed call/loop work per export call
        self.exec_profile = True    # C22: memory exported, no non-function imports, plain names
        self.nan_payload = False    # NaN constants with sign/payload/signalling bit
        self.odd_names = False      # export/import names with quotes, backslashes, non-ascii
        self.custom = False         # leading custom section (binary only)
        self.mem_edge = 0.04        # probability that an address is a page-edge / out-of-bounds one
        self.trap_ops = True        # div/rem by possibly-zero, unreachable, trapping trunc on free operands
        self.__dict__.update(kw)


class ModGen:
    def __init__(self, rnd, dials, avoid=()):
        self.r = rnd
        self.d = dials
        self.avoid = set(avoid)
        self.features = {}

    def feat(self, name, n=1):
        self.features[name] = self.features.get(name, 0) + n

    # -- module level -------------------------------------------------------
    def module(self):
        r, d = self.r, self.d
        desc = {"types": [], "imports": [], "funcs": [], "table": None, "memory": None, "globals": [],
                "exports": [], "start": None, "elems": [], "datas": [], "custom": []}
        self.desc = desc
        types = desc["types"]

        def type_index(params, results, may_dup=False):
            sig = [list(params), list(results)]
            if sig in types and not (may_dup and r.random() < 0.1):
                return types.index(sig)
            types.append(sig)
            return len(types) - 1

        self.type_index = type_index
        # a void->void type first (start function, blocks do not need it)
        if r.random() < 0.7:
            type_index([], [])
        # imports
        self.func_types = []     # function index space -> type index
        self.func_cost = []
        nimp = r.choice([0, 0, 1, 2, 3])
        names = sorted(HOST_FUNCS)
        r.shuffle(names)
        for name in names[:nimp]:
            p, res = HOST_FUNCS[name]
            ti = type_index(p, res)
            desc["imports"].append({"module": "env", "name": name, "kind": "func", "type": ti})
            self.func_types.append(ti)
            self.func_cost.append(1)
        self.globals = []        # global index space -> (typ, mut, imported)
        if not d.exec_profile:
            for k in range(r.choice([0, 0, 1, 2])):
                t = r.choice(VALTYPES)
                desc["imports"].append({"module": "env", "name": "g%s%d" % (t, k), "kind": "global", "typ": t,
                                        "mut": False})
                self.globals.append((t, False, True))
        self.n_imported_globals = len(self.globals)
        imported_memory = imported_table = False
        if not d.exec_profile and r.random() < 0.15:
            mx = r.choice([None, 1, 2, 70000 // 65536 + 1])
            desc["imports"].append({"module": "env", "name": "mem", "kind": "memory", "min": 1, "max": mx})
            imported_memory = True
        if not d.exec_profile and r.random() < 0.12:
            desc["imports"].append({"module": "env", "name": "tab", "kind": "table", "min": 4,
                                    "max": r.choice([None, 4, 200])})
            imported_table = True
        # memory
        self.has_memory = imported_memory
        self.mem_pages = 1
        if not imported_memory and (d.exec_profile or r.random() < 0.8):
            mx = r.choice([None, 1, 2, 2, 3]) if d.exec_profile else r.choice([None, 1, 2, 129, 65536])
            desc["memory"] = {"min": 1, "max": mx}
            self.has_memory = True
        # globals
        for k in range(r.choice([0, 1, 2, 3, 4])):
            t = r.choice(VALTYPES)
            mut = r.random() < 0.7
            cands = [i for i, g in enumerate(self.globals) if g[2] and g[0] == t]
            if cands and r.random() < 0.4:
                init = ["global.get", r.choice(cands)]
                self.feat("global.init.global_get")
            else:
                init = const_instr(t, self.const_value(t))
            desc["globals"].append({"typ": t, "mut": mut, "init": init})
            self.globals.append((t, mut, False))
        # function signatures
        nf = r.randint(*d.nfuncs)
        sigs = []
        for k in range(nf):
            params = [r.choice(VALTYPES) for _ in range(r.randint(*d.nparams))]
            results = [r.choice(VALTYPES)] if r.random() < 0.8 else []
            sigs.append((params, results))
        want_start = r.random() < 0.25
        if want_start:
            sigs[r.randrange(nf)] = ([], [])
        first_def = len(self.func_types)
        for params, results in sigs:
            self.func_types.append(type_index(params, results, may_dup=not d.exec_profile))
        # table + elems (entries may refer to any function, also later ones: the
        # acyclicity of calls is kept by cost accounting, see call_indirect)
        self.table = None
        if imported_table or r.random() < 0.6:
            size = r.randint(2, 6)
            if not imported_table and not d.exec_profile and r.random() < 0.08:
                size = 0          # an empty table: no element segments, every call_indirect traps
                mx = r.choice([None, 0, 3])
                if mx is None and "text-table-min0-nomax-unparsable" in self.avoid:
                    mx = 3
                desc["table"] = {"min": 0, "max": mx}
                self.feat("table.empty")
            elif not imported_table:
                desc["table"] = {"min": size, "max": r.choice([None, size, size + 3])}
            else:
                size = 4
            entries = [None] * size
            for _ in range(r.choice([1, 1, 2]) if size else 0):
                off = r.randrange(0, size)
                n = r.randint(1, size - off)
                # only functions defined *before* the caller are safe to call; the
                # caller filters by index at generation time
                lo = first_def if "no-imported-func-in-elem" in self.avoid else 0
                fs = [r.randrange(lo, len(self.func_types)) for _ in range(n)]
                desc["elems"].append({"offset": const_instr(I32, off), "funcs": fs})
                for j, f in enumerate(fs):
                    entries[off + j] = f
            self.table = entries
        # datas
        if self.has_memory:
            for _ in range(r.choice([0, 1, 1, 2])):
                n = r.choice([0, 1, 3, 8, 16, 40])
                off = r.choice([0, 1, 8, 100, 1000, 65536 - n]) if r.random() < 0.8 else r.randrange(0, 65536 - n)
                if r.random() < 0.5:
                    data = bytes(r.getrandbits(8) for _ in range(n))
                else:
                    data = bytes(r.choice(b'abcXYZ019 "\\\n\t\x00\x7f\x80\xff\'();') for _ in range(n))
                desc["datas"].append({"offset": const_instr(I32, off), "hex": data.hex()})
        # function bodies
        for k, (params, results) in enumerate(sigs):
            fidx = first_def + k
            fg = FuncGen(self, fidx, params, results)
            body = fg.function()
            desc["funcs"].append({"type": self.func_types[fidx], "locals": fg.extra_locals, "body": body})
            self.func_cost.append(fg.cost)
        # exports
        exported = set()
        for k in range(nf):
            if r.random() < 0.75 or k == nf - 1:
                desc["exports"].append({"name": self.export_name("f%d" % k), "kind": "func", "index": first_def + k})
                exported.add(k)
        if not d.exec_profile and desc["imports"] and desc["imports"][0]["kind"] == "func" and r.random() < 0.2:
            desc["exports"].append({"name": "reexport", "kind": "func", "index": 0})
        if self.has_memory and (d.exec_profile or r.random() < 0.6):
            desc["exports"].append({"name": "mem", "kind": "memory", "index": 0})
        if self.table is not None and r.random() < 0.4:
            desc["exports"].append({"name": "tab", "kind": "table", "index": 0})
        for gi, (t, mut, imported) in enumerate(self.globals):
            if not imported and r.random() < 0.6 and not (t in FLOATS and "no-exported-float-global" in self.avoid):
                desc["exports"].append({"name": "g%d" % gi, "kind": "global", "index": gi})
        if want_start:
            cands = [first_def + k for k, s in enumerate(sigs) if s == ([], [])]
            desc["start"] = r.choice(cands)
            self.feat("start")
        if d.custom and r.random() < 0.2:
            desc["custom"].append({"name": "verif", "hex": bytes(r.getrandbits(8) for _ in range(r.randint(0, 9))).hex()})
        for k in ("imports", "globals", "elems", "datas", "exports"):
            self.feat("defs." + k, len(desc[k]))
        self.feat("defs.funcs", nf)
        self.feat("defs.types", len(types))
        self.feat("defs.table", int(desc["table"] is not None))
        self.feat("defs.memory", int(desc["memory"] is not None))
        return desc

    def const_value(self, t):
        v = rand_value(self.r, t, odd_nan_pool(t, self.avoid) if self.d.nan_payload else ())
        if "no-nonfinite-float-const" in self.avoid and is_nonfinite(t, v):
            v = f32_bits(1.5) if t == F32 else f64_bits(1.5)
        return v

    def export_name(self, base):
        if self.d.odd_names and self.r.random() < 0.15:
            self.feat("odd_export_name")
            pool = [" sp", "é", ".dot-dash", "(x)", ";;"]
            if "text-names-not-escaped" not in self.avoid:
                pool += ['"q', "\\b", "\t", "\n"]
            return base + self.r.choice(pool)
        return base


class Stop(Exception):
    pass


class FuncGen:
    """Generates one type-correct, terminating function body."""

    def __init__(self, mg, fidx, params, results):
        self.mg, self.r, self.d, self.avoid = mg, mg.r, mg.d, mg.avoid
        self.fidx = fidx
        self.params = list(params)
        self.result = results[0] if results else None
        self.extra_locals = [self.r.choice(VALTYPES) for _ in range(self.r.randint(0, 4))]
        self.labels = []            # innermost last: {"kind", "result"}
        self.budget = self.d.budget
        self.cost = 1
        self.mult = 1               # product of enclosing loop trip counts
        self.loop_depth = 0
        self.counters = set()       # loop counter locals: never written by generated statements
        self.dead = 0               # > 0 while generating code that follows a terminator in its block

    # -- helpers ------------------------------------------------------------
    def feat(self, name):
        self.mg.feat(name)

    def local_types(self):
        return self.params + self.extra_locals

    def locals_of(self, t, writable=False):
        return [i for i, lt in enumerate(self.local_types()) if lt == t and not (writable and i in self.counters)]

    def new_local(self, t):
        self.extra_locals.append(t)
        return len(self.params) + len(self.extra_locals) - 1

    def spend(self, n=1):
        self.budget -= n
        self.cost += n * self.mult

    def op(self, name):
        self.feat("op." + name)
        self.spend()
        return [[name]]

    # -- function -----------------------------------------------------------
    def function(self):
        body = self.stmts(self.r.randint(*self.d.stmts), 3)
        if self.result is not None:
            if not self.terminated(body):
                body += self.expr(self.result, self.d.expr_depth)
            elif self.r.random() < 0.5:
                self.dead += 1
                body += self.expr(self.result, self.d.expr_depth)
                self.dead -= 1
        return body

    @staticmethod
    def terminated(code):
        return bool(code) and code[-1][0] in ("br", "br_table", "return", "unreachable")

    # -- expressions ----------------------------------------------------------
    def const(self, t):
        v = self.mg.const_value(t)
        self.feat("const.%s.%s" % (t, classify_value(t, v)))
        self.spend()
        return [const_instr(t, v)]

    def leaf(self, t):
        r = self.r
        k = r.random()
        ls = self.locals_of(t)
        if ls and k < 0.5:
            self.spend()
            return [["local.get", r.choice(ls)]]
        gs = [i for i, g in enumerate(self.mg.globals) if g[0] == t]
        if gs and k < 0.65:
            self.spend()
            self.feat("op.global.get")
            return [["global.get", r.choice(gs)]]
        return self.const(t)

    def expr(self, t, depth):
        r = self.r
        if depth <= 0 or self.budget <= 0:
            return self.leaf(t)
        k = r.random()
        if k < 0.12:
            return self.leaf(t)
        if k < 0.62:
            return self.numeric(t, depth)
        if k < 0.70 and self.mg.has_memory:
            return self.load(t, depth)
        if k < 0.76:
            return self.block_expr(t, depth)
        if k < 0.82:
            return self.if_expr(t, depth)
        if k < 0.86:
            code = self.expr(t, depth - 1) + self.expr(t, depth - 1) + self.cond(depth - 1)
            return code + self.op("select")
        if k < 0.93:
            c = self.call_expr(t, depth)
            if c is not None:
                return c
        if k < 0.96:
            ls = self.locals_of(t, writable=True)
            if ls:
                self.feat("op.local.tee")
                return self.expr(t, depth - 1) + [["local.tee", r.choice(ls)]]
        if t == I32 and self.mg.has_memory and k < 0.98:
            if r.random() < 0.5 or "memory-grow" in self.avoid:
                return self.op("memory.size")
            self.feat("op.memory.grow")
            return [const_instr(I32, r.choice([0, 0, 1, 1, 2, 70000]))] + self.op("memory.grow")
        return self.numeric(t, depth)

    SPECIAL_F32 = [0x7FC00000, 0x00000000, 0x80000000, 0x7F800000, 0xFF800000]
    SPECIAL_F64 = [0x7FF8000000000000, 0x0000000000000000, 0x8000000000000000, 0x7FF0000000000000,
                   0xFFF0000000000000]

    def cmp_operands(self, t, depth):
        """Operands of a comparison.  Float comparisons get a NaN / +-0 / +-inf constant on one side
        with probability 0.3: the translator keeps comparison results as lazy (op, a, b) tuples and
        every consumer (eqz, if, br_if, select, another comparison) has to treat the unordered case."""
        r = self.r
        a = self.expr(t, depth - 1)
        b = self.expr(t, depth - 1)
        if t in FLOATS and r.random() < 0.3:
            pool = self.SPECIAL_F32 if t == F32 else self.SPECIAL_F64
            if "no-nonfinite-float-const" in self.avoid:
                pool = pool[1:3]
            c = [const_instr(t, r.choice(pool))]
            self.feat("cmp_special_operand")
            if r.random() < 0.5:
                a = c
            else:
                b = c
        return a + b

    def cond(self, depth):
        """An i32 used as a condition: biased to comparisons, sometimes negated by i32.eqz."""
        r = self.r
        if r.random() < 0.7 and depth > 0 and self.budget > 0:
            t = r.choice(VALTYPES)
            names = [n for n in OPS_BY_RESULT[I32] if SIG[n][0] == [t, t] and n.split(".")[1] in _ICMP + _FCMP]
            if t in FLOATS and "float-cmp-gt-ge-only" in self.avoid:
                names = [t + ".gt", t + ".ge"]
            n = r.choice(names)
            code = self.cmp_operands(t, depth) + self.op(n)
            k = r.random()
            if k < 0.25:
                code += self.op("i32.eqz")
                self.feat("cmp_negated")
                if k < 0.05:
                    code += self.op("i32.eqz")
            return code
        return self.expr(I32, depth)

    def numeric(self, t, depth):
        r = self.r
        av = self.avoid
        names = OPS_BY_RESULT[t]
        if t == F32 and "no-f32-arith" in av:
            names = [x for x in names if x not in F32_ARITH]
        if t == F32 and "no-f32-sqrt-demote" in av:
            names = [x for x in names if x not in ("f32.sqrt", "f32.demote_f64")]
        if t == I64 and "no-i64-shift" in av:
            names = [x for x in names if x not in ("i64.shl", "i64.shr_s", "i64.shr_u")]
        n = r.choice(names)
        args, _ = SIG[n]
        base = n.split(".")[1]
        # ---- avoid switches (generator flags; checks map open findings to flags) ----
        if base in ("div_s", "div_u", "rem_s", "rem_u"):
            it = args[0]
            a = self.expr(it, depth - 1)
            if (base == "div_s" and "no-div-s-overflow" in av) or (base == "rem_s" and "no-rem-s-overflow" in av):
                a += [const_instr(it, 1)] + self.op(it + ".or")     # dividend is never INT_MIN
                self.feat("div.dividend_not_min")
            if self.d.trap_ops and "no-int-div-by-zero" not in av and r.random() < 0.3:
                b = self.expr(it, depth - 1)              # may be 0 / -1: traps are part of the workload
                self.feat("div.free_divisor")
            else:
                # divisor provably in 1..255: (e & 0xFE) | 1
                b = self.expr(it, depth - 1) + [const_instr(it, 0xFE)] + self.op(it + ".and") + \
                    [const_instr(it, 1)] + self.op(it + ".or")
                self.feat("div.safe_divisor")
            return a + b + self.op(n)
        if n in TRAPPING_TRUNC:
            src = args[0]
            if self.d.trap_ops and "no-trapping-trunc-out-of-range" not in av and r.random() < 0.4:
                self.feat("trunc.free_operand")
                return self.expr(src, depth - 1) + self.op(n)
            # operand provably in range: convert(i32 & 0x7FFFFF) * 0.5 (exact in f32 and f64)
            self.feat("trunc.safe_operand")
            code = self.expr(I32, depth - 1) + [const_instr(I32, 0x7FFFFF)] + self.op("i32.and")
            code += self.op(src + ".convert_i32_s")
            half = f32_bits(0.5) if src == F32 else f64_bits(0.5)
            code += [const_instr(src, half)] + self.op(src + ".mul")
            return code + self.op(n)
        if n in ("f32.convert_i64_s", "f32.convert_i64_u") and "f32-convert-i64-53bit" in av:
            # operand has at most 53 significant bits: i64 -> double is exact, one rounding to single
            self.feat("f32_convert_i64.narrow")
            return self.expr(I64, depth - 1) + [const_instr(I64, 11)] + \
                self.op("i64.shr_s" if n.endswith("_s") else "i64.shr_u") + self.op(n)
        if base in ("shl", "shr_s", "shr_u") and "const-shift-count" in av:
            self.feat("shift.const_count")
            bits = 32 if t == I32 else 64
            cnt = r.choice([0, 1, 7, bits - 1, bits, bits + 1, r.randrange(0, 2 * bits), -1])
            return self.expr(t, depth - 1) + [const_instr(t, cnt)] + self.op(n)
        if t in FLOATS and base in ("ceil", "floor", "trunc", "nearest") and "rounding-nonneg-finite-only" in av:
            # operand = convert_u(i32 & 0xFFFF) * 0.25 : finite, >= 0, quarter steps
            self.feat("rounding.safe_operand")
            code = self.expr(I32, depth - 1) + [const_instr(I32, 0xFFFF)] + self.op("i32.and")
            code += self.op(t + ".convert_i32_u")
            q = f32_bits(0.25) if t == F32 else f64_bits(0.25)
            return code + [const_instr(t, q)] + self.op(t + ".mul") + self.op(n)
        if t in FLOATS and base in ("min", "max") and "minmax-const-second-operand" in av:
            self.feat("minmax.const_second")
            c = r.choice([1.0, -1.0, 0.5, 100.0, -2.5, 1e30, -1e30])
            return self.expr(t, depth - 1) + [const_instr(t, f32_bits(c) if t == F32 else f64_bits(c))] + self.op(n)
        if t in FLOATS and base == "sqrt" and "sqrt-of-abs" in av:
            self.feat("sqrt.of_abs")
            return self.expr(t, depth - 1) + self.op(t + ".abs") + self.op(n)
        if "trunc_sat" in n and "trunc-sat-no-nan" in av:
            src = args[0]
            self.feat("trunc_sat.from_int")
            if src == F32 and "no-f32-arith" in av:
                code = self.expr(I32, depth - 1) + [const_instr(I32, 0x7FFFFF)] + self.op("i32.and")
                code += self.op("f32.convert_i32_s") + [const_instr(F32, f32_bits(-0.5))] + self.op("f32.mul")
                return code + self.op(n)
            code = self.expr(I64, depth - 1)
            if src == F32 and "f32-convert-i64-53bit" in av:
                code += [const_instr(I64, 11)] + self.op("i64.shr_s")
            code += self.op(src + ".convert_i64_s")
            c = r.choice([1.0, 0.5, 3.0, -1.5])
            return code + [const_instr(src, f32_bits(c) if src == F32 else f64_bits(c))] + self.op(src + ".mul") + self.op(n)
        if t in FLOATS and base == "div" and "float-div-nonzero-divisor" in av:
            self.feat("fdiv.nonzero_divisor")
            one = f32_bits(1.0) if t == F32 else f64_bits(1.0)
            b = self.expr(t, depth - 1) + self.op(t + ".abs") + [const_instr(t, one)] + self.op(t + ".add")
            return self.expr(t, depth - 1) + b + self.op(n)
        if t == I32 and args[0] in FLOATS and base in ("eq", "ne", "lt", "le") and "float-cmp-gt-ge-only" in av:
            n = args[0] + "." + r.choice(["gt", "ge"])
        if t == I32 and len(args) == 2 and base in _ICMP + _FCMP:
            return self.cmp_operands(args[0], depth) + self.op(n)
        code = []
        for k, at in enumerate(args):
            sub = self.expr(at, depth - 1)
            if at in FLOATS and (base.startswith("reinterpret") or (base == "copysign" and k == 1)):
                sub = self.no_nan(at, sub)
            code += sub
        return code + self.op(n)

    def no_nan(self, t, code):
        """code leaving a float -> code leaving the same value, or the constant 1.5 when it is a NaN:
        bit patterns of NaN results are not deterministic in the spec, so they must not reach
        memory, integer reinterpretation or copysign.  (x >= x) is false exactly for NaN."""
        if not self.d.exec_profile:
            return code
        tmp = self.new_local(t)
        canon = f32_bits(1.5) if t == F32 else f64_bits(1.5)
        self.feat("nan_sanitiser")
        self.spend(5)
        return code + [["local.tee", tmp], [t + ".const", canon], ["local.get", tmp], ["local.get", tmp], [t + ".ge"],
                       ["select"]]

    def address(self, width, depth):
        """(code leaving an i32 address, static offset) - in bounds unless an edge case is drawn."""
        r = self.r
        if r.random() < self.d.mem_edge and "no-mem-oob" not in self.avoid:
            self.feat("mem.edge_address")
            off = r.choice([0, 0, 1, 4, 65535, 0xFFFFFFFF])
            base = r.choice([65536 - width, 65536 - width + 1, 65536, 65535, -1, -width, 0x7FFFFFFF, 131072 - width])
            return [const_instr(I32, sx(base, 32))], off
        off = r.choice([0, 0, 0, 1, 2, 4, 8, 100])
        if r.random() < 0.5:
            self.spend()
            return [const_instr(I32, r.choice([0, 1, 2, 3, 4, 8, 16, 100, 1000, 4096, 65000]))], off
        # (e & 0xFFF8) + small  <= 65528 + 100 + 8 < 65536+... keep below 65536: mask 0xFF00
        code = self.expr(I32, depth - 1) + [const_instr(I32, 0xFF00)] + self.op("i32.and")
        self.feat("mem.computed_address")
        return code, off

    def align_for(self, width):
        natural = {1: 0, 2: 1, 4: 2, 8: 3}[width]
        return self.r.choice([natural, natural, natural, 0, self.r.randint(0, natural)])

    def load(self, t, depth):
        names = sorted(n for n in LOADS if n.startswith(t + "."))
        n = self.r.choice(names)
        w = mem_width(n)
        code, off = self.address(w, depth)
        self.feat("op." + n)
        self.spend()
        return code + [[n, self.align_for(w), off]]

    def store(self, depth):
        n = self.r.choice(sorted(STORES))
        t = n.split(".")[0]
        w = mem_width(n)
        code, off = self.address(w, depth)
        val = self.expr(t, depth - 1)
        if t in FLOATS:
            val = self.no_nan(t, val)
        code += val
        self.feat("op." + n)
        self.spend()
        return code + [[n, self.align_for(w), off]]

    def block_expr(self, t, depth):
        """block (result t) ... end, with branches carrying the value out."""
        r = self.r
        self.feat("block.result")
        self.labels.append({"kind": "block", "result": t})
        try:
            body = self.stmts(r.randint(0, 2), depth - 1)
            if not self.terminated(body):
                k = r.random()
                if k < 0.35:
                    # value; cond; br_if 0; drop; value
                    body += self.expr(t, depth - 1) + self.cond(depth - 1) + [["br_if", 0]] + self.op("drop")
                    body += self.expr(t, depth - 1)
                    self.feat("br_if.value")
                elif k < 0.5:
                    body += self.expr(t, depth - 1) + [["br", 0]]
                    self.feat("br.value")
                    if r.random() < 0.4:
                        body += self.leaf(t)            # dead code after br
                        self.feat("dead_code")
                else:
                    body += self.expr(t, depth - 1)
        finally:
            self.labels.pop()
        self.spend()
        return [["block", t]] + body + [["end"]]

    def if_expr(self, t, depth):
        self.feat("if.result")
        code = self.cond(depth - 1)
        self.labels.append({"kind": "if", "result": t})
        try:
            a = self.stmts(self.r.randint(0, 1), depth - 1)
            if not self.terminated(a):
                a += self.expr(t, depth - 1)
            b = self.stmts(self.r.randint(0, 1), depth - 1)
            if not self.terminated(b):
                b += self.expr(t, depth - 1)
        finally:
            self.labels.pop()
        self.spend()
        return code + [["if", t]] + a + [["else"]] + b + [["end"]]

    def callable_funcs(self, want_result):
        """(funcidx, type) of functions this one may call: imports and lower indices within the cost limit."""
        out = []
        for f in range(self.fidx):
            p, res = self.mg.desc["types"][self.mg.func_types[f]]
            if (res[0] if res else None) != want_result:
                continue
            if self.cost + self.mult * self.mg.func_cost[f] > self.d.cost_limit:
                continue
            out.append(f)
        return out

    def call_expr(self, t, depth):
        r = self.r
        fs = self.callable_funcs(t)
        if self.mg.table is not None and r.random() < 0.35 and "call-indirect-off" not in self.avoid:
            c = self.call_indirect(t, depth)
            if c is not None:
                return c
        if not fs:
            return None
        f = r.choice(fs)
        params = self.mg.desc["types"][self.mg.func_types[f]][0]
        code = []
        for pt in params:
            code += self.expr(pt, depth - 1)
        self.cost += self.mult * self.mg.func_cost[f]
        self.feat("op.call")
        self.spend()
        return code + [["call", f]]

    def call_indirect(self, t, depth):
        """call_indirect through the table.  Only entries < fidx can recurse-free be
        reached: an index whose entry is a later function is never generated (it
        could recurse); null entries, out-of-range indices and signature
        mismatches are generated with their own probabilities (they trap)."""
        r = self.r
        entries = self.mg.table
        types = self.mg.desc["types"]
        good = [i for i, f in enumerate(entries) if f is not None and f < self.fidx and
                (types[self.mg.func_types[f]][1][0] if types[self.mg.func_types[f]][1] else None) == t and
                self.cost + self.mult * self.mg.func_cost[f] <= self.d.cost_limit]
        k = r.random()
        trapping = self.d.trap_ops and "no-call-indirect-trap" not in self.avoid
        if good and (k < 0.8 or not trapping):
            i = r.choice(good)
            f = entries[i]
            ti = self.mg.func_types[f]
            idx = [const_instr(I32, i)]
            self.cost += self.mult * self.mg.func_cost[f]
            self.feat("call_indirect.ok")
        elif trapping and k >= 0.8:
            # a trapping call: null entry, out of range index, or wrong signature
            kinds = []
            nulls = [i for i, f in enumerate(entries) if f is None]
            if nulls and "no-call-indirect-null" not in self.avoid:
                kinds.append("null")
            if "no-call-indirect-oob" not in self.avoid:
                kinds.append("oob")
            mism = [i for i, f in enumerate(entries) if f is not None and f < self.fidx]
            if mism and "no-call-indirect-sig-mismatch" not in self.avoid:
                kinds.append("sig")
            if not kinds:
                return None
            kind = r.choice(kinds)
            cand = [j for j, (p, res) in enumerate(types) if (res[0] if res else None) == t]
            if not cand:
                return None
            ti = r.choice(cand)
            if kind == "null":
                idx = [const_instr(I32, r.choice(nulls))]
            elif kind == "oob":
                idx = [const_instr(I32, r.choice([len(entries), len(entries) + 7, -1]))]
            else:
                i = r.choice(mism)
                idx = [const_instr(I32, i)]
                if types[self.mg.func_types[entries[i]]] == types[ti]:
                    # structurally equal types match: fine, then it is simply a good call
                    self.cost += self.mult * self.mg.func_cost[entries[i]]
                    kind = "sig-equal"
            self.feat("call_indirect.trap." + kind)
        else:
            return None
        code = []
        for pt in types[ti][0]:
            code += self.expr(pt, depth - 1)
        self.spend()
        self.feat("op.call_indirect")
        return code + idx + [["call_indirect", ti]]

    # -- statements -----------------------------------------------------------
    def stmts(self, n, depth):
        out = []
        for _ in range(n):
            if self.budget <= 0:
                break
            one = self.stmt(depth)
            out += one
            if isinstance(one, DeadTail):
                return DeadTail(out)      # the statement ends in dead code at this nesting level
            if self.terminated(out):
                if self.r.random() < 0.3 and depth > 0:
                    self.feat("dead_code")
                    saved = self.cost
                    self.dead += 1
                    out += self.stmt(0) if self.r.random() < 0.5 else self.dead_block()
                    self.dead -= 1
                    self.cost = saved
                    return DeadTail(out)
                break
        return out

    def dead_block(self):
        t = self.r.choice(["", I32, F64])
        body = self.leaf(t) if t else self.op("nop")
        kinds = ["block"] if "no-loop-in-dead-code" in self.avoid else ["block", "loop"]
        code = [[self.r.choice(kinds), t]] + body + [["end"]]
        return code + (self.op("drop") if t else [])

    def stmt(self, depth):
        r = self.r
        k = r.random()
        d1 = max(depth - 1, 0)
        lt = self.local_types()
        ws = [i for i in range(len(lt)) if i not in self.counters]
        if k < 0.22 and ws:
            i = r.choice(ws)
            self.feat("op.local.set")
            return self.expr(lt[i], self.d.expr_depth) + [["local.set", i]]
        if k < 0.32:
            gs = [i for i, g in enumerate(self.mg.globals) if g[1]]
            if gs:
                g = r.choice(gs)
                self.feat("op.global.set")
                return self.expr(self.mg.globals[g][0], self.d.expr_depth) + [["global.set", g]]
        if k < 0.46 and self.mg.has_memory:
            return self.store(self.d.expr_depth)
        if k < 0.52:
            t = r.choice(VALTYPES)
            return self.expr(t, self.d.expr_depth) + self.op("drop")
        if k < 0.58:
            c = self.call_expr(None, self.d.expr_depth)
            if c is not None:
                return c
        if depth <= 0 or self.budget <= 0:
            return self.op("nop")
        if k < 0.66:
            return self.block_stmt(d1)
        if k < 0.74:
            return self.loop_stmt(d1)
        if k < 0.84:
            return self.if_stmt(d1)
        if k < 0.90:
            return self.br_stmt(d1)
        if k < 0.94:
            return self.switch_stmt(d1)
        if k < 0.95 and self.mg.has_memory and "text-bulk-memory-immediate-unparsable" not in self.avoid:
            return self.bulk_stmt()
        if k < 0.97:
            code = self.expr(self.result, self.d.expr_depth) if self.result else []
            self.feat("op.return")
            return code + [["return"]]
        if k < 0.985 and self.d.trap_ops and "no-unreachable" not in self.avoid:
            # guarded so that it does not kill every run
            self.feat("op.unreachable")
            return self.cond(2) + [["if", ""]] + self.op("unreachable") + [["end"]]
        return self.op("nop")

    def bulk_stmt(self):
        r = self.r
        n = r.choice([0, 1, 5, 64])
        dst = r.choice([0, 16, 1000, 65536 - n])
        if r.random() < 0.5:
            self.feat("op.memory.fill")
            return [const_instr(I32, dst), const_instr(I32, r.choice([0, 1, 0xAB, 0x1FF, -1])), const_instr(I32, n),
                    ["memory.fill"]]
        self.feat("op.memory.copy")
        return [const_instr(I32, dst), const_instr(I32, r.choice([0, 8, dst + 1 if dst + 1 + n <= 65536 else 0])),
                const_instr(I32, n), ["memory.copy"]]

    def block_stmt(self, depth):
        self.feat("block.void")
        self.labels.append({"kind": "block", "result": None})
        try:
            body = self.stmts(self.r.randint(1, 3), depth)
        finally:
            self.labels.pop()
        self.spend()
        return [["block", ""]] + list(body) + [["end"]]

    def loop_stmt(self, depth):
        """counter = N; loop body; br_if 0 while --counter != 0."""
        r = self.r
        if self.loop_depth >= 2 or (self.dead and "no-loop-in-dead-code" in self.avoid):
            return self.block_stmt(depth)
        n = r.randint(1, 4)
        c = self.new_local(I32)
        self.counters.add(c)
        self.feat("loop")
        rt = r.choice(["", "", "", I32, F64])
        self.labels.append({"kind": "loop", "result": None})
        old = self.mult
        self.mult *= n
        self.loop_depth += 1
        try:
            body = self.stmts(r.randint(1, 3), depth)
            back = [["local.get", c], const_instr(I32, 1), ["i32.sub"], ["local.tee", c], ["br_if", 0]]
            if self.terminated(body):
                # the loop body left through a branch: the back edge would be dead code
                body = list(body)
                tail = []
            else:
                body = list(body) + back
                tail = self.expr(rt, 1) if rt else []
            if rt and self.terminated(body):
                tail = []
        finally:
            self.loop_depth -= 1
            self.mult = old
            self.labels.pop()
        self.spend(6)
        code = [const_instr(I32, n), ["local.set", c], ["loop", rt]] + body + tail + [["end"]]
        if rt:
            self.feat("loop.result")
            code += self.op("drop")
        return code

    def if_stmt(self, depth):
        r = self.r
        code = self.cond(2)
        self.labels.append({"kind": "if", "result": None})
        try:
            a = list(self.stmts(r.randint(1, 2), depth))
            b = list(self.stmts(r.randint(1, 2), depth)) if r.random() < 0.6 else None
        finally:
            self.labels.pop()
        self.feat("if.else" if b is not None else "if.noelse")
        self.spend()
        return code + [["if", ""]] + a + ([["else"]] + b if b is not None else []) + [["end"]]

    def br_targets(self, result):
        """depths of labels a branch with the given arity may go to (never a loop: the
        only back edge is the counter-guarded one).  Depth len(labels) is the function."""
        out = [len(self.labels) - 1 - i for i, lab in enumerate(self.labels)
               if lab["kind"] != "loop" and lab["result"] == result]
        if self.result == result:
            out.append(len(self.labels))
        return out

    def br_stmt(self, depth):
        r = self.r
        t = r.choice([None, None, None] + [lab["result"] for lab in self.labels if lab["result"]] + [self.result])
        targets = self.br_targets(t)
        if not targets:
            return self.op("nop")
        d = r.choice(targets)
        val = self.expr(t, 2) if t else []
        if r.random() < 0.7:
            self.feat("br_if" + (".value" if t else ""))
            self.spend()
            return val + self.cond(2) + [["br_if", d]] + (self.op("drop") if t else [])
        self.feat("br" + (".value" if t else ""))
        self.spend()
        return val + [["br", d]]

    def switch_stmt(self, depth):
        """block block block idx br_table 0 1 2 end A end B end C  (plus outer targets)"""
        r = self.r
        n = r.randint(1, 3)
        self.feat("br_table")
        code = []
        for _ in range(n):
            code.append(["block", ""])
            self.labels.append({"kind": "block", "result": None})
        targets = self.br_targets(None)
        table = [r.choice(targets) if r.random() < 0.3 else r.randrange(n) for _ in range(r.randint(0, n + 2))]
        default = r.choice(targets) if r.random() < 0.3 else r.randrange(n)
        idx = self.expr(I32, 2)
        if r.random() < 0.6:
            # keep the index small enough to hit the table, -1/huge stay possible
            idx += [const_instr(I32, r.choice([3, 7])), ["i32.and"]]
        else:
            self.feat("br_table.free_index")
        code += idx + [["br_table", table, default]]
        self.spend(3 + n)
        for k in range(n):
            self.labels.pop()
            code.append(["end"])
            if r.random() < 0.8:
                arm = self.stmts(1, depth)
                code += list(arm)
                if k == n - 1 and isinstance(arm, DeadTail):
                    # the last arm stands at the nesting level of the switch statement itself
                    return DeadTail(code)
        return code


class DeadTail(list):
    """A statement list whose end is unreachable although its last instruction is not a branch."""


def _terminated(code):
    return isinstance(code, DeadTail) or (bool(code) and code[-1][0] in ("br", "br_table", "return", "unreachable"))


FuncGen.terminated = staticmethod(_terminated)


def gen_module(rnd, dials=None, avoid=()):
    """-> (description, feature vector)"""
    mg = ModGen(rnd, dials or Dials(), avoid)
    desc = mg.module()
    return desc, mg.features


def gen_calls(rnd, desc, per_export=8):
    """Invocation script: [{"f": export name, "args": [[type, value]...], "ret": type|None}]"""
    calls = []
    nimp = sum(1 for i in desc["imports"] if i["kind"] == "func")
    ftypes = [i["type"] for i in desc["imports"] if i["kind"] == "func"] + [f["type"] for f in desc["funcs"]]
    exports = [e for e in desc["exports"] if e["kind"] == "func" and e["index"] >= nimp]
    for _ in range(per_export):
        for e in exports:
            params, results = desc["types"][ftypes[e["index"]]]
            args = []
            for t in params:
                v = rand_value(rnd, t)
                if t in FLOATS and rnd.random() < 0.15:
                    v = rnd.choice(FuncGen.SPECIAL_F32 if t == F32 else FuncGen.SPECIAL_F64)
                args.append([t, str(v) if t in INTS else ("%08x" % v if t == F32 else "%016x" % v)])
            calls.append({"f": e["name"], "args": args, "ret": results[0] if results else None})
    rnd.shuffle(calls)
    return calls


# ---------------------------------------------------------------------------
# independent binary encoder (canonical: minimal LEB128, one locals entry per
# run of equal types, sections in id order, no optional fields)

def uleb(v):
    assert v >= 0
    out = bytearray()
    while True:
        b = v & 0x7F
        v >>= 7
        if v:
            out.append(b | 0x80)
        else:
            out.append(b)
            return bytes(out)


def sleb(v):
    out = bytearray()
    while True:
        b = v & 0x7F
        v >>= 7
        if (v == 0 and not b & 0x40) or (v == -1 and b & 0x40):
            out.append(b)
            return bytes(out)
        out.append(b | 0x80)


TYPE_BYTE = {I32: 0x7F, I64: 0x7E, F32: 0x7D, F64: 0x7C}


def enc_name(s):
    b = s.encode("utf-8")
    return uleb(len(b)) + b


def enc_limits(mn, mx):
    return b"\x00" + uleb(mn) if mx is None else b"\x01" + uleb(mn) + uleb(mx)


def enc_instr(ins):
    op = ins[0]
    code = OPC[op]
    out = bytes([code[0]]) + uleb(code[1]) if isinstance(code, tuple) else bytes([code])
    if op in ("block", "loop", "if"):
        return out + (b"\x40" if ins[1] == "" else bytes([TYPE_BYTE[ins[1]]]))
    if op in ("br", "br_if", "call", "local.get", "local.set", "local.tee", "global.get", "global.set"):
        return out + uleb(ins[1])
    if op == "br_table":
        return out + uleb(len(ins[1])) + b"".join(uleb(x) for x in ins[1]) + uleb(ins[2])
    if op == "call_indirect":
        return out + uleb(ins[1]) + b"\x00"
    if op in LOADS or op in STORES:
        return out + uleb(ins[1]) + uleb(ins[2])
    if op in ("memory.size", "memory.grow", "memory.fill"):
        return out + b"\x00"
    if op == "memory.copy":
        return out + b"\x00\x00"
    if op == "i32.const" or op == "i64.const":
        return out + sleb(ins[1])
    if op == "f32.const":
        return out + struct.pack("<I", ins[1])
    if op == "f64.const":
        return out + struct.pack("<Q", ins[1])
    return out


def enc_expr(instrs):
    return b"".join(enc_instr(i) for i in instrs) + b"\x0b"


def section(sid, payload):
    return bytes([sid]) + uleb(len(payload)) + payload


def vec(items):
    return uleb(len(items)) + b"".join(items)


def encode(desc):
    out = bytearray(b"\x00asm\x01\x00\x00\x00")
    for c in desc.get("custom", []):
        out += section(0, enc_name(c["name"]) + bytes.fromhex(c["hex"]))
    if desc["types"]:
        out += section(1, vec([b"\x60" + vec([bytes([TYPE_BYTE[t]]) for t in p]) + vec([bytes([TYPE_BYTE[t]]) for t in r])
                               for p, r in desc["types"]]))
    if desc["imports"]:
        items = []
        for im in desc["imports"]:
            b = enc_name(im["module"]) + enc_name(im["name"])
            if im["kind"] == "func":
                b += b"\x00" + uleb(im["type"])
            elif im["kind"] == "table":
                b += b"\x01\x70" + enc_limits(im["min"], im["max"])
            elif im["kind"] == "memory":
                b += b"\x02" + enc_limits(im["min"], im["max"])
            else:
                b += b"\x03" + bytes([TYPE_BYTE[im["typ"]], int(im["mut"])])
            items.append(b)
        out += section(2, vec(items))
    if desc["funcs"]:
        out += section(3, vec([uleb(f["type"]) for f in desc["funcs"]]))
    if desc["table"]:
        out += section(4, vec([b"\x70" + enc_limits(desc["table"]["min"], desc["table"]["max"])]))
    if desc["memory"]:
        out += section(5, vec([enc_limits(desc["memory"]["min"], desc["memory"]["max"])]))
    if desc["globals"]:
        out += section(6, vec([bytes([TYPE_BYTE[g["typ"]], int(g["mut"])]) + enc_expr([g["init"]])
                               for g in desc["globals"]]))
    if desc["exports"]:
        kinds = {"func": 0, "table": 1, "memory": 2, "global": 3}
        out += section(7, vec([enc_name(e["name"]) + bytes([kinds[e["kind"]]]) + uleb(e["index"])
                               for e in desc["exports"]]))
    if desc["start"] is not None:
        out += section(8, uleb(desc["start"]))
    if desc["elems"]:
        out += section(9, vec([b"\x00" + enc_expr([e["offset"]]) + vec([uleb(f) for f in e["funcs"]])
                               for e in desc["elems"]]))
    if desc["funcs"]:
        bodies = []
        for f in desc["funcs"]:
            runs = []
            for t in f["locals"]:
                if runs and runs[-1][1] == t:
                    runs[-1][0] += 1
                else:
                    runs.append([1, t])
            b = vec([uleb(n) + bytes([TYPE_BYTE[t]]) for n, t in runs]) + enc_expr(f["body"])
            bodies.append(uleb(len(b)) + b)
        out += section(10, vec(bodies))
    if desc["datas"]:
        out += section(11, vec([b"\x00" + enc_expr([d["offset"]]) + uleb(len(d["hex"]) // 2) + bytes.fromhex(d["hex"])
                                for d in desc["datas"]]))
    return bytes(out)


# ---------------------------------------------------------------------------
# ppci components

def pyfloat(t, bits):
    return bits_f32(bits) if t == F32 else bits_f64(bits)


def to_components(desc):
    """Build ``ppci.wasm.Module`` from Definition objects (index ids, Ref objects)."""
    from ppci import wasm
    from ppci.wasm import components as C

    Ref = C.Ref

    def instr(ins):
        op = ins[0]
        if op in ("block", "loop", "if"):
            return C.BlockInstruction(op, None, ins[1] or "emptyblock")
        if op in ("br", "br_if"):
            return C.Instruction(op, Ref("label", index=ins[1]))
        if op == "br_table":
            return C.Instruction(op, [Ref("label", index=x) for x in ins[1] + [ins[2]]])
        if op == "call":
            return C.Instruction(op, Ref("func", index=ins[1]))
        if op == "call_indirect":
            return C.Instruction(op, Ref("type", index=ins[1]), Ref("table", index=0))
        if op.startswith("local."):
            return C.Instruction(op, Ref("local", index=ins[1]))
        if op.startswith("global."):
            return C.Instruction(op, Ref("global", index=ins[1]))
        if op in LOADS or op in STORES:
            return C.Instruction(op, ins[1], ins[2])
        if op in ("memory.size", "memory.grow", "memory.fill"):
            return C.Instruction(op, 0)
        if op == "memory.copy":
            return C.Instruction(op, 0, 0)
        if op in ("i32.const", "i64.const"):
            return C.Instruction(op, ins[1])
        if op in ("f32.const", "f64.const"):
            return C.Instruction(op, pyfloat(op[:3], ins[1]))
        if op == "select":
            return C.Instruction(op, [])
        return C.Instruction(op)

    defs = []
    for c in desc.get("custom", []):
        defs.append(C.Custom(c["name"], bytes.fromhex(c["hex"])))
    for i, (p, r) in enumerate(desc["types"]):
        defs.append(C.Type(i, [(k, t) for k, t in enumerate(p)], list(r)))
    counters = {"func": 0, "table": 0, "memory": 0, "global": 0}
    for im in desc["imports"]:
        k = im["kind"]
        if k == "func":
            info = (Ref("type", index=im["type"]),)
        elif k == "table":
            info = ("funcref", im["min"], im["max"])
        elif k == "memory":
            info = (im["min"], im["max"])
        else:
            info = (im["typ"], bool(im["mut"]))
        defs.append(C.Import(im["module"], im["name"], k, counters[k], info))
        counters[k] += 1
    if desc["table"]:
        defs.append(C.Table(counters["table"], "funcref", desc["table"]["min"], desc["table"]["max"]))
    if desc["memory"]:
        defs.append(C.Memory(counters["memory"], desc["memory"]["min"], desc["memory"]["max"]))
    for g in desc["globals"]:
        defs.append(C.Global(counters["global"], g["typ"], g["mut"], [instr(g["init"])]))
        counters["global"] += 1
    for e in desc["exports"]:
        defs.append(C.Export(e["name"], e["kind"], Ref(e["kind"], index=e["index"])))
    if desc["start"] is not None:
        defs.append(C.Start(Ref("func", index=desc["start"])))
    for i, e in enumerate(desc["elems"]):
        defs.append(C.Elem(i, (Ref("table", index=0), [instr(e["offset"])]), [Ref("func", index=f) for f in e["funcs"]]))
    for f in desc["funcs"]:
        defs.append(C.Func(counters["func"], Ref("type", index=f["type"]), [(None, t) for t in f["locals"]],
                           [instr(i) for i in f["body"]]))
        counters["func"] += 1
    for i, d in enumerate(desc["datas"]):
        defs.append(C.Data(i, (Ref("memory", index=0), [instr(d["offset"])]), bytes.fromhex(d["hex"])))
    return wasm.Module(*defs)


# ---------------------------------------------------------------------------
# independent text printer (WebAssembly text format 1.0 with the spec's
# abbreviations: symbolic ids, inline exports, folded instructions, hex
# literals, comments)

def wat_float(t, bits):
    if t == F32:
        e, m, s, top, mbits, quiet = (bits >> 23) & 0xFF, bits & 0x7FFFFF, bits >> 31, 0xFF, 23, 0x400000
    else:
        e, m, s, top, mbits, quiet = (bits >> 52) & 0x7FF, bits & ((1 << 52) - 1), bits >> 63, 0x7FF, 52, 1 << 51
    sign = "-" if s else ""
    if e == top:
        if m == 0:
            return sign + "inf"
        if m == quiet:
            return sign + "nan"
        return "%snan:0x%x" % (sign, m)
    return pyfloat(t, bits).hex()


def wat_string(b):
    out = []
    for v in b:
        if 32 <= v < 127 and v not in (34, 92):
            out.append(chr(v))
        else:
            out.append("\\%02x" % v)
    return '"' + "".join(out) + '"'


def wat_name(s):
    """A name as a WAT string: printable characters raw (also non-ASCII), the rest escaped."""
    out = []
    for ch in s:
        v = ord(ch)
        if ch in '"\\' or v < 32 or v == 127:
            out.append("".join("\\%02x" % b for b in ch.encode("utf-8")))
        else:
            out.append(ch)
    return '"' + "".join(out) + '"'


class WatStyle:
    def __init__(self, rnd=None, **kw):
        self.names = rnd.random() < 0.6 if rnd else False         # $f0 / $g0 / $l0 / $L0 ids
        self.fold = rnd.random() < 0.5 if rnd else False           # folded instructions
        self.inline_export = rnd.random() < 0.5 if rnd else False  # (func $f (export "x") ...)
        self.hexints = rnd.random() < 0.4 if rnd else False
        self.comments = rnd.random() < 0.5 if rnd else False
        self.typeuse_sig = rnd.random() < 0.5 if rnd else False    # (type $t) (param ..) (result ..)
        self.named_params = True                                    # (param $l0 i32) ... local.get $l0
        self.__dict__.update(kw)


def to_wat(desc, style=None):
    st = style or WatStyle()
    nimp = {"func": 0, "table": 0, "memory": 0, "global": 0}
    for im in desc["imports"]:
        nimp[im["kind"]] += 1
    ftypes = [i["type"] for i in desc["imports"] if i["kind"] == "func"] + [f["type"] for f in desc["funcs"]]
    gtypes = [i["typ"] for i in desc["imports"] if i["kind"] == "global"] + [g["typ"] for g in desc["globals"]]

    def rid(space, i):
        return ("$%s%d" % (space, i)) if st.names else str(i)

    def did(space, i):
        return (" $%s%d" % (space, i)) if st.names else ""

    def num(v):
        if st.hexints:
            return ("-0x%x" % -v) if v < 0 else "0x%x" % v
        return str(v)

    def sig(ti, named_params=False):
        p, r = desc["types"][ti]
        s = ""
        if p:
            if named_params and st.names and st.named_params:
                s += "".join(" (param $l%d %s)" % (i, t) for i, t in enumerate(p))
            else:
                s += " (param %s)" % " ".join(p)
        if r:
            s += " (result %s)" % " ".join(r)
        return s

    def typeuse(ti, named_params=False):
        s = " (type %s)" % rid("t", ti)
        if st.typeuse_sig:
            s += sig(ti, named_params)
        return s

    def plain(ins, labels):
        """text of a non-block instruction"""
        op = ins[0]
        if op in ("br", "br_if"):
            return "%s %s" % (op, lab(ins[1], labels))
        if op == "br_table":
            return "br_table " + " ".join(lab(x, labels) for x in ins[1] + [ins[2]])
        if op == "call":
            return "call " + rid("f", ins[1])
        if op == "call_indirect":
            return "call_indirect (type %s)" % rid("t", ins[1])
        if op.startswith("local."):
            if not st.named_params and ins[1] < nparams[0]:
                return "%s %d" % (op, ins[1])
            return "%s %s" % (op, rid("l", ins[1]))
        if op.startswith("global."):
            return "%s %s" % (op, rid("g", ins[1]))
        if op in LOADS or op in STORES:
            s = op
            if ins[2]:
                s += " offset=%d" % ins[2]
            natural = {1: 0, 2: 1, 4: 2, 8: 3}[mem_width(op)]
            if ins[1] != natural:
                s += " align=%d" % (1 << ins[1])
            return s
        if op in ("i32.const", "i64.const"):
            return "%s %s" % (op, num(ins[1]))
        if op in ("f32.const", "f64.const"):
            return "%s %s" % (op, wat_float(op[:3], ins[1]))
        return op

    def lab(depth, labels):
        # labels: innermost last; the function body itself has no symbolic label
        if st.names and depth < len(labels) and labels[-1 - depth] is not None:
            return labels[-1 - depth]
        return str(depth)

    counter = [0]
    nparams = [0]

    def arity(ins):
        """(pops, pushes) or None when the instruction is not folded"""
        op = ins[0]
        if op in SIG:
            return len(SIG[op][0]), 1
        if op.endswith(".const") or op in ("local.get", "global.get", "memory.size"):
            return 0, 1
        if op in ("local.set", "global.set", "drop"):
            return 1, 0
        if op in ("local.tee", "memory.grow"):
            return 1, 1
        if op in LOADS:
            return 1, 1
        if op in STORES:
            return 2, 0
        if op == "select":
            return 3, 1
        if op == "call":
            p, r = desc["types"][ftypes[ins[1]]]
            return len(p), len(r)
        if op == "call_indirect":
            p, r = desc["types"][ins[1]]
            return len(p) + 1, len(r)
        if op in ("memory.fill", "memory.copy"):
            return 3, 0
        if op == "nop":
            return 0, 0
        return None

    def body_text(code, labels, indent):
        """Render an instruction list.  Folding follows the spec: (op operand*) for plain
        instructions whose operands are the immediately preceding one-value expressions."""
        lines = []     # entries: [text, pushes_one_value]
        pad = "  " * indent
        i = 0
        n = len(code)
        while i < n:
            ins = code[i]
            op = ins[0]
            if op in ("block", "loop", "if"):
                # find the matching else/end at this nesting level
                depth, j, else_at = 0, i + 1, None
                while True:
                    o = code[j][0]
                    if o in ("block", "loop", "if"):
                        depth += 1
                    elif o == "else" and depth == 0:
                        else_at = j
                    elif o == "end":
                        if depth == 0:
                            break
                        depth -= 1
                    j += 1
                name = None
                if st.names:
                    name = "$L%d" % counter[0]
                    counter[0] += 1
                head = op + (" " + name if name else "") + (" (result %s)" % ins[1] if ins[1] else "")
                inner = labels + [name]
                if st.fold:
                    if op == "if":
                        cond = None
                        if lines and lines[-1][1]:
                            cond = lines.pop()[0]
                        a = body_text(code[i + 1:else_at if else_at is not None else j], inner, indent + 2)
                        txt = "(" + head + "\n"
                        if cond is not None:
                            txt += cond + "\n"
                        txt += pad + "  (then\n" + a + (")" if not a else "\n" + pad + "  )")
                        if else_at is not None:
                            b = body_text(code[else_at + 1:j], inner, indent + 2)
                            txt += "\n" + pad + "  (else\n" + b + (")" if not b else "\n" + pad + "  )")
                        txt += ")"
                        if cond is None:
                            lines.append([pad + txt, False])
                        else:
                            lines.append([pad + txt, False])
                    else:
                        a = body_text(code[i + 1:j], inner, indent + 1)
                        lines.append([pad + "(" + head + ("\n" + a if a else "") + ")", False])
                else:
                    lines.append([pad + head, False])
                    if else_at is not None:
                        a = body_text(code[i + 1:else_at], inner, indent + 1)
                        if a:
                            lines.append([a, False])
                        lines.append([pad + "else" + (" " + name if name and st.comments else ""), False])
                        b = body_text(code[else_at + 1:j], inner, indent + 1)
                        if b:
                            lines.append([b, False])
                    else:
                        a = body_text(code[i + 1:j], inner, indent + 1)
                        if a:
                            lines.append([a, False])
                    lines.append([pad + "end" + (" " + name if name and st.comments else ""), False])
                i = j + 1
                continue
            txt = plain(ins, labels)
            ar = arity(ins) if st.fold else None
            if ar is not None:
                pops, pushes = ar
                operands = []
                while len(operands) < pops and lines and lines[-1][1]:
                    operands.insert(0, lines.pop()[0])
                if len(operands) < pops:
                    # not enough foldable operands: put them back, emit flat
                    for o in operands:
                        lines.append([o, True])
                    lines.append([pad + txt, False])
                else:
                    if operands:
                        t2 = pad + "(" + txt + "\n" + "\n".join("  " + o for o in operands) + ")"
                    else:
                        t2 = pad + "(" + txt + ")"
                    lines.append([t2, pushes == 1])
            else:
                lines.append([pad + txt, False])
            i += 1
        return "\n".join(l[0] for l in lines)

    out = ["(module"]
    if st.comments:
        out.append("  ;; generated by vlib.wasmgen (; nested (; block ;) comment ;)")
    for i, (p, r) in enumerate(desc["types"]):
        out.append("  (type%s (func%s))" % (did("t", i), sig(i)))
    cnt = {"func": 0, "table": 0, "memory": 0, "global": 0}
    short = {"func": "f", "table": "T", "memory": "M", "global": "g"}
    for im in desc["imports"]:
        k = im["kind"]
        head = "  (import %s %s (%s%s" % (wat_name(im["module"]), wat_name(im["name"]), k,
                                         did(short[k], cnt[k]))
        cnt[k] += 1
        if k == "func":
            head += typeuse(im["type"])
        elif k == "table":
            head += " %d%s funcref" % (im["min"], "" if im["max"] is None else " %d" % im["max"])
        elif k == "memory":
            head += " %d%s" % (im["min"], "" if im["max"] is None else " %d" % im["max"])
        else:
            head += " (mut %s)" % im["typ"] if im["mut"] else " " + im["typ"]
        out.append(head + "))")
    inline = {}
    if st.inline_export:
        for e in desc["exports"]:
            if e["kind"] == "func" and e["index"] >= nimp["func"]:
                inline.setdefault(e["index"], []).append(e["name"])
    # The order of fields in the text is free except that imports come first; the
    # binary section order is fixed.  Exports keep their relative order.
    for k, f in enumerate(desc["funcs"]):
        fi = nimp["func"] + k
        head = "  (func%s" % did("f", fi)
        for name in inline.get(fi, []):
            head += " (export %s)" % wat_name(name)
        head += " (type %s)" % rid("t", f["type"])
        p, r = desc["types"][f["type"]]
        nparams[0] = len(p)
        if st.typeuse_sig or (st.names and p and st.named_params):
            head += sig(f["type"], named_params=True)
        out.append(head)
        if f["locals"]:
            if st.names:
                out.append("    " + " ".join("(local $l%d %s)" % (len(p) + i, t) for i, t in enumerate(f["locals"])))
            else:
                out.append("    (local %s)" % " ".join(f["locals"]))
        counter[0] = 0
        b = body_text(f["body"], [], 2)
        if b:
            out.append(b)
        out.append("  )")
    if desc["table"]:
        t = desc["table"]
        out.append("  (table%s %d%s funcref)" % (did("T", 0), t["min"], "" if t["max"] is None else " %d" % t["max"]))
    if desc["memory"]:
        m = desc["memory"]
        out.append("  (memory%s %d%s)" % (did("M", 0), m["min"], "" if m["max"] is None else " %d" % m["max"]))
    for i, g in enumerate(desc["globals"]):
        gi = nimp["global"] + i
        ty = "(mut %s)" % g["typ"] if g["mut"] else g["typ"]
        out.append("  (global%s %s (%s))" % (did("g", gi), ty, plain(g["init"], [])))
    for e in desc["exports"]:
        if e["kind"] == "func" and e["index"] in inline:
            continue
        out.append("  (export %s (%s %s))" % (wat_name(e["name"]), e["kind"], rid(short[e["kind"]], e["index"])))
    if desc["start"] is not None:
        out.append("  (start %s)" % rid("f", desc["start"]))
    for e in desc["elems"]:
        off = "(%s)" % plain(e["offset"], []) if not st.fold else "(offset (%s))" % plain(e["offset"], [])
        out.append("  (elem %s %s%s)" % (off, "func " if st.comments else "", " ".join(rid("f", f) for f in e["funcs"])))
    for d in desc["datas"]:
        data = bytes.fromhex(d["hex"])
        if st.fold and len(data) > 2:
            s = wat_string(data[:2]) + " " + wat_string(data[2:])
        else:
            s = wat_string(data)
        out.append("  (data (%s) %s)" % (plain(d["offset"], []), s))
    out.append(")")
    return "\n".join(out) + "\n"


def inline_exports_reorder(desc, style):
    """The description whose binary the text with inline exports denotes: per the spec an
    inline export is equivalent to an export field placed right after the definition, so
    with inline function exports those exports move (in function order) to where the
    function fields stand.  to_wat prints functions before the remaining exports."""
    if not style.inline_export:
        return desc
    nimp = sum(1 for i in desc["imports"] if i["kind"] == "func")
    inl = [e for e in desc["exports"] if e["kind"] == "func" and e["index"] >= nimp]
    rest = [e for e in desc["exports"] if not (e["kind"] == "func" and e["index"] >= nimp)]
    inl.sort(key=lambda e: e["index"])     # stable: same-function exports keep their order
    d2 = dict(desc)
    d2["exports"] = inl + rest
    return d2
