"""Independent clone / structural hash / structural compare of ppci IR modules
(DESIGN C02 'ircmp.clone', C16 'ircmp.equal').  Uses only constructors and
operand fields of ``ppci.ir``; no to_json, no copy.deepcopy."""
import hashlib
import math
import struct

from ppci import ir


def _fkey(x):
    if isinstance(x, float):
        if x != x:
            return "nan"
        return struct.pack("<d", x).hex()
    return x


def operand_fields(ins):
    """(field name, value) pairs of the value operands of an instruction, in a
    fixed order."""
    t = type(ins)
    if t is ir.Binop:
        return [("a", ins.a), ("b", ins.b)]
    if t is ir.Unop:
        return [("a", ins.a)]
    if t is ir.Cast:
        return [("src", ins.src)]
    if t is ir.AddressOf:
        return [("src", ins.src)]
    if t is ir.Load:
        return [("address", ins.address)]
    if t is ir.Store:
        return [("value", ins.value), ("address", ins.address)]
    if t is ir.CopyBlob:
        return [("dst", ins.dst), ("src", ins.src)]
    if t is ir.FunctionCall or t is ir.ProcedureCall:
        return [("callee", ins.callee)] + [("arg%d" % i, a) for i, a in enumerate(ins.arguments)]
    if t is ir.Return:
        return [("result", ins.result)]
    if t is ir.CJump:
        return [("a", ins.a), ("b", ins.b)]
    if t is ir.Phi:
        return [("in:" + b.name, v) for b, v in sorted(ins.inputs.items(), key=lambda kv: kv[0].name)]
    if t is ir.InlineAsm:
        return [("in%d" % i, v) for i, v in enumerate(ins.input_values)] + \
               [("out%d" % i, v) for i, v in enumerate(ins.output_values)]
    return []


def block_targets(ins):
    t = type(ins)
    if t is ir.Jump:
        return [ins.target]
    if t is ir.CJump:
        return [ins.lab_yes, ins.lab_no]
    return []


def attrs(ins):
    """Non-operand attributes that are part of an instruction's meaning."""
    t = type(ins)
    out = [t.__name__]
    if isinstance(ins, ir.Value):
        out.append(str(ins.ty))
    if t is ir.Binop or t is ir.Unop:
        out.append(ins.operation)
    elif t is ir.Const:
        out.append(_fkey(ins.value))
        out.append(type(ins.value).__name__)
    elif t is ir.LiteralData:
        out.append(bytes(ins.data).hex())
    elif t is ir.Alloc:
        out += [ins.amount, ins.alignment]
    elif t is ir.CopyBlob:
        out.append(ins.amount)
    elif t is ir.Load or t is ir.Store:
        out.append(bool(ins.volatile))
    elif t is ir.CJump:
        out.append(ins.cond)
    elif t is ir.InlineAsm:
        out += [ins.template, list(ins.clobbers)]
    return out


def var_value_key(value):
    if value is None:
        return None
    out = []
    for part in value:
        if isinstance(part, (bytes, bytearray)):
            out.append(bytes(part).hex())
        else:
            out.append([str(part[0]), part[1]])
    return out


def describe(module, names=False):
    """Canonical nested-list description: values are referred to by position,
    not by name (names=True adds names, for text round trips)."""
    d = {"name": module.name, "externals": [], "variables": [], "functions": []}
    for e in module.externals:
        ent = [type(e).__name__, e.name]
        if isinstance(e, ir.ExternalSubRoutine):
            ent.append([str(t) for t in e.argument_types])
        if isinstance(e, ir.ExternalFunction):
            ent.append(str(e.return_ty))
        d["externals"].append(ent)
    for v in module.variables:
        d["variables"].append([v.name, str(v.binding), v.amount, v.alignment, var_value_key(v.value)])
    for f in module.functions:
        ids = {}
        for i, p in enumerate(f.arguments):
            ids[p] = "p%d" % i
        for bi, b in enumerate(f.blocks):
            for ii, ins in enumerate(b.instructions):
                ids[ins] = "v%d.%d" % (bi, ii)
        bids = {b: i for i, b in enumerate(f.blocks)}

        def ref(v):
            if v in ids:
                return ids[v]
            if isinstance(v, ir.GlobalValue):
                return "@" + v.name
            return "?" + getattr(v, "name", repr(v))

        fd = {"kind": type(f).__name__, "name": f.name, "binding": str(f.binding),
              "ret": str(f.return_ty) if isinstance(f, ir.Function) else None,
              "params": [[str(p.ty)] + ([p.name] if names else []) for p in f.arguments], "blocks": []}
        for b in f.blocks:
            bl = []
            for ins in b.instructions:
                ent = attrs(ins)
                if names and isinstance(ins, ir.Value):
                    ent.append(ins.name)
                ent.append([[n, ref(v)] for n, v in _opfields_pos(ins, bids)])
                ent.append([bids.get(t, "?" + t.name) for t in block_targets(ins)])
                bl.append(ent)
            fd["blocks"].append([b.name] + bl if names else bl)
        d["functions"].append(fd)
    return d


def _opfields_pos(ins, bids):
    if type(ins) is ir.Phi:
        return [("in:%s" % bids.get(b, "?" + b.name), v)
                for b, v in sorted(ins.inputs.items(), key=lambda kv: bids.get(kv[0], -1))]
    return operand_fields(ins)


def structural_hash(module):
    import json

    return hashlib.sha256(json.dumps(describe(module), sort_keys=True, default=repr).encode()).hexdigest()[:20]


def diff(a, b, path=""):
    """First difference between two describe() results, as a string, or None."""
    if type(a) != type(b):
        return "%s: %r vs %r" % (path, a, b)
    if isinstance(a, dict):
        for k in sorted(set(a) | set(b)):
            if k not in a or k not in b:
                return "%s.%s: missing on one side" % (path, k)
            r = diff(a[k], b[k], path + "." + str(k))
            if r:
                return r
        return None
    if isinstance(a, list):
        if len(a) != len(b):
            return "%s: length %d vs %d" % (path, len(a), len(b))
        for i, (x, y) in enumerate(zip(a, b)):
            r = diff(x, y, "%s[%d]" % (path, i))
            if r:
                return r
        return None
    if a != b:
        return "%s: %r vs %r" % (path, a, b)
    return None


def clone(module):
    """Rebuild an equal, completely separate module."""
    m = ir.Module(module.name)
    gmap = {}
    for e in module.externals:
        if isinstance(e, ir.ExternalFunction):
            n = ir.ExternalFunction(e.name, list(e.argument_types), e.return_ty)
        elif isinstance(e, ir.ExternalProcedure):
            n = ir.ExternalProcedure(e.name, list(e.argument_types))
        else:
            n = ir.ExternalVariable(e.name)
        m.add_external(n)
        gmap[e] = n
    for v in module.variables:
        n = ir.Variable(v.name, v.binding, v.amount, v.alignment, value=v.value)
        m.add_variable(n)
        gmap[v] = n
    for f in module.functions:
        if isinstance(f, ir.Function):
            n = ir.Function(f.name, f.binding, f.return_ty)
        else:
            n = ir.Procedure(f.name, f.binding)
        m.add_function(n)
        gmap[f] = n
    for f in module.functions:
        nf = gmap[f]
        vmap = dict(gmap)
        for p in f.arguments:
            np_ = ir.Parameter(p.name, p.ty)
            nf.add_parameter(np_)
            vmap[p] = np_
        bmap = {}
        for b in f.blocks:
            nb = ir.Block(b.name)
            nf.add_block(nb)
            bmap[b] = nb
        nf.entry = bmap[f.entry]
        fixups = []

        class Later:
            def __init__(self, v):
                self.v = v

        def get(v, ty=None):
            if v in vmap:
                return vmap[v]
            return Later(v)

        # first pass: create every instruction whose operands exist; forward
        # references (phi inputs, and plain forward refs in odd block orders)
        # are patched afterwards
        pending = []
        for b in f.blocks:
            for ins in b.instructions:
                pending.append((b, ins))
        # create placeholders for forward-referenced values by ordering:
        # process in dominance-agnostic way: iterate until all created
        created = {}
        order = list(pending)
        progress = True
        phis = []
        while order and progress:
            progress = False
            rest = []
            for b, ins in order:
                ops = operand_fields(ins) if type(ins) is not ir.Phi else []
                if all(v in vmap for _, v in ops):
                    created[ins] = _make(ins, vmap, bmap)
                    if isinstance(ins, ir.Value):
                        vmap[ins] = created[ins]
                    if type(ins) is ir.Phi:
                        phis.append(ins)
                    progress = True
                else:
                    rest.append((b, ins))
            order = rest
        if order:
            raise ValueError("clone: cyclic non-phi dependency")
        for b in f.blocks:
            for ins in b.instructions:
                bmap[b].add_instruction(created[ins])
        for ins in phis:
            for blk, v in ins.inputs.items():
                created[ins].set_incoming(bmap[blk], vmap[v])
    return m


def _make(ins, vmap, bmap):
    t = type(ins)
    g = vmap.get
    if t is ir.Const:
        return ir.Const(ins.value, ins.name, ins.ty)
    if t is ir.Binop:
        return ir.Binop(g(ins.a), ins.operation, g(ins.b), ins.name, ins.ty)
    if t is ir.Unop:
        return ir.Unop(ins.operation, g(ins.a), ins.name, ins.ty)
    if t is ir.Cast:
        return ir.Cast(g(ins.src), ins.name, ins.ty)
    if t is ir.AddressOf:
        return ir.AddressOf(g(ins.src), ins.name)
    if t is ir.Undefined:
        return ir.Undefined(ins.name, ins.ty)
    if t is ir.LiteralData:
        return ir.LiteralData(ins.data, ins.name)
    if t is ir.FunctionCall:
        return ir.FunctionCall(g(ins.callee), [g(a) for a in ins.arguments], ins.name, ins.ty)
    if t is ir.ProcedureCall:
        return ir.ProcedureCall(g(ins.callee), [g(a) for a in ins.arguments])
    if t is ir.Phi:
        return ir.Phi(ins.name, ins.ty)
    if t is ir.Alloc:
        return ir.Alloc(ins.name, ins.amount, ins.alignment)
    if t is ir.CopyBlob:
        return ir.CopyBlob(g(ins.dst), g(ins.src), ins.amount)
    if t is ir.Load:
        return ir.Load(g(ins.address), ins.name, ins.ty, volatile=ins.volatile)
    if t is ir.Store:
        return ir.Store(g(ins.value), g(ins.address), volatile=ins.volatile)
    if t is ir.Exit:
        return ir.Exit()
    if t is ir.Return:
        return ir.Return(g(ins.result))
    if t is ir.Jump:
        return ir.Jump(bmap[ins.target])
    if t is ir.CJump:
        return ir.CJump(g(ins.a), ins.cond, g(ins.b), bmap[ins.lab_yes], bmap[ins.lab_no])
    if t is ir.InlineAsm:
        n = ir.InlineAsm(ins.template, ins.clobbers)
        for v in ins.input_values:
            n.add_input_variable(g(v))
        for v in ins.output_values:
            n.add_output_variable(g(v))
        return n
    raise ValueError("clone: unknown instruction %s" % t.__name__)
