"""Reference decoders (DESIGN 2.7): llvm-objdump-14 (all ISAs below) and GNU objdump (x86-64).

    decode(isa, [bytes, ...])         -> [Decoded, ...]      one reference tool run per batch
    norm_ref(isa, text)               -> (mnemonic, atoms) | None
    norm_ppci(isa, text, labels)      -> (mnemonic, atoms) | None
    rewrite(isa, mnemonic, atoms)     -> (mnemonic, atoms, why|None)   ppci spelling -> reference spelling
    same(isa, ppci_norm, ref_norm)    -> (bool, detail)

Wrapping raw bytes: llvm-objcopy-14 cannot produce msp430/avr/m68k ELF, so a 40-line ELF
writer (``make_elf``) emits a relocatable file with one executable ``.text`` section for every
ISA; ``llvm-objdump-14 -d --triple=...`` decodes it linearly.  Every instance is followed by
filler (NOPs of the ISA) so that a mis-sized decode cannot shift the following instances, and
is looked up by its byte offset; the decoded byte count must equal the instance's size.

An *atom* is a register (canonical lower-case name), an integer, a label wildcard ``("L", name)``
or a kept keyword (shift kinds, msp430 addressing glyphs).  Punctuation, ``#``, size keywords
(``dword ptr``) and disassembler comments are dropped.  ppci's text and the reference's text go
through the same tokenizer.

Equivalence table (``REWRITES``/``MNEMONIC_ALIASES``/``REG_ALIASES``): every entry aligns two
*spellings* of one operation and carries a one-line justification; none of them touches an
operand value (DESIGN 3.3).  ISAs without reference decoder: or1k, xtensa, microblaze (and
stm8, mcs6500, which are not in C08).
"""
import os
import re
import shutil
import struct
import subprocess

LLVM_OBJDUMP = "llvm-objdump-14"
GNU_OBJDUMP = "objdump"

# machine: ELF e_machine; filler: bytes of a NOP used as padding; align: instance start alignment
ISAS = {
    "riscv": dict(machine=243, triple="riscv32", mattr="+m,+c,+f,+d,+a", extra=["-M", "no-aliases"],
                  filler=bytes.fromhex("13000000"), pad=8, align=4),
    "riscv:rvc": dict(machine=243, triple="riscv32", mattr="+m,+c,+f,+d,+a", extra=["-M", "no-aliases"],
                      filler=bytes.fromhex("13000000"), pad=8, align=4),
    "arm": dict(machine=40, triple="armv7a", mattr="+hwdiv-arm", eflags=0x05000000,
                filler=bytes.fromhex("00f020e3"), pad=4, align=4),
    "arm:thumb": dict(machine=40, triple="thumbv7a", mattr="+hwdiv", eflags=0x05000000,
                      filler=bytes.fromhex("00bf"), pad=8, align=4),
    "x86_64": dict(machine=62, triple="x86_64", bits=64, extra=["--x86-asm-syntax=intel"],
                   filler=b"\x90", pad=16, align=1),
    "mips": dict(machine=8, triple="mipsel", filler=bytes(4), pad=4, align=4),
    "msp430": dict(machine=105, triple="msp430", filler=bytes.fromhex("0343"), pad=8, align=2),
    "avr": dict(machine=83, triple="avr", mcpu="atmega2560", filler=bytes(2), pad=6, align=2),
    "m68k": dict(machine=4, triple="m68k", big=True, filler=bytes.fromhex("4e71"), pad=12, align=2),
}

NO_REFERENCE = ["or1k", "xtensa", "microblaze"]


def available(isa):
    return isa in ISAS and shutil.which(LLVM_OBJDUMP) is not None


def tool_versions():
    out = {}
    for tool in (LLVM_OBJDUMP, GNU_OBJDUMP):
        try:
            r = subprocess.run([tool, "--version"], capture_output=True, text=True, timeout=20)
            lines = [x for x in r.stdout.splitlines() if "version" in x.lower()]
            out[tool] = (lines or r.stdout.splitlines() or ["?"])[0].strip()
        except Exception as e:  # noqa
            out[tool] = "missing (%s)" % type(e).__name__
    return out


def make_elf(code, machine, bits=32, big=False, eflags=0, symbols=()):
    """Minimal ET_REL ELF: one SHF_ALLOC|SHF_EXECINSTR section .text holding ``code`` and a symbol table with
    one local symbol per (name, offset) in ``symbols``.  llvm-objdump restarts decoding at every symbol, so an
    undecodable instance cannot desynchronise the following ones (it skips ONE byte after <unknown>)."""
    e = ">" if big else "<"
    shstr = b"\0.text\0.shstrtab\0.symtab\0.strtab\0"
    n_text, n_shstr, n_symtab, n_strtab = 1, 7, 17, 25
    ehsize, shentsize = (52, 40) if bits == 32 else (64, 64)
    strtab = bytearray(b"\0")
    syms = bytearray(16 if bits == 32 else 24)
    for name, off in symbols:
        ni = len(strtab)
        strtab += name.encode() + b"\0"
        if bits == 32:
            syms += struct.pack(e + "IIIBBH", ni, off, 0, 0, 0, 1)
        else:
            syms += struct.pack(e + "IBBHQQ", ni, 0, 0, 1, off, 0)

    def align(n, a=8):
        return (n + a - 1) & ~(a - 1)

    off_text = ehsize
    off_sym = align(off_text + len(code))
    off_str = off_sym + len(syms)
    off_shstr = off_str + len(strtab)
    off_sh = align(off_shstr + len(shstr))
    nsec = 5
    ident = b"\x7fELF" + bytes([1 if bits == 32 else 2, 2 if big else 1, 1, 0]) + b"\0" * 8
    if bits == 32:
        hdr = ident + struct.pack(e + "HHIIIIIHHHHHH", 1, machine, 1, 0, 0, off_sh, eflags, ehsize, 0, 0,
                                  shentsize, nsec, 4)

        def sh(name, typ, fl, off, size, link=0, info=0, al=1, ent=0):
            return struct.pack(e + "IIIIIIIIII", name, typ, fl, 0, off, size, link, info, al, ent)
    else:
        hdr = ident + struct.pack(e + "HHIQQQIHHHHHH", 1, machine, 1, 0, 0, off_sh, eflags, ehsize, 0, 0,
                                  shentsize, nsec, 4)

        def sh(name, typ, fl, off, size, link=0, info=0, al=1, ent=0):
            return struct.pack(e + "IIQQQQIIQQ", name, typ, fl, 0, off, size, link, info, al, ent)
    body = bytearray(hdr + code)
    body += b"\0" * (off_sym - len(body))
    body += syms + strtab + shstr
    body += b"\0" * (off_sh - len(body))
    nsym = len(syms) // (16 if bits == 32 else 24)
    body += sh(0, 0, 0, 0, 0)
    body += sh(n_text, 1, 6, off_text, len(code), al=4)
    body += sh(n_symtab, 2, 0, off_sym, len(syms), link=3, info=nsym, al=4, ent=16 if bits == 32 else 24)
    body += sh(n_strtab, 3, 0, off_str, len(strtab))
    body += sh(n_shstr, 3, 0, off_shstr, len(shstr))
    return bytes(body)


class Decoded:
    """What the reference made of one instance."""

    __slots__ = ("offset", "size", "lines", "text", "nbytes", "status")

    def __init__(self, offset, size):
        self.offset = offset
        self.size = size
        self.lines = []      # [(offset, nbytes, text)] decoded inside [offset, offset+size)
        self.text = None     # text of the line starting at offset
        self.nbytes = None   # its byte count
        self.status = "missing"   # ok | invalid | length | missing

    def as_json(self):
        return {"status": self.status, "text": self.text, "nbytes": self.nbytes,
                "lines": [list(x) for x in self.lines[:4]]}


def layout(isa, chunks):
    cfg = ISAS[isa]
    filler, pad, align = cfg["filler"], cfg["pad"], cfg["align"]
    blob = bytearray()
    spans = []
    for c in chunks:
        while len(blob) % align:
            blob += filler[: 1] if len(filler) == 1 else b"\0"
        spans.append((len(blob), len(c)))
        blob += c
        # filler: start on the filler's own alignment, then `pad` bytes of NOPs
        while len(blob) % len(filler):
            blob += b"\0"
        blob += filler * max(1, pad // len(filler))
    return bytes(blob), spans


_LINE = re.compile(r"^\s*([0-9a-f]+):\s*(.*)$")
_HEX = re.compile(r"^[0-9a-f]{2}$")


def parse_objdump(out):
    """{offset: (nbytes, text)} from llvm-objdump / GNU objdump -d output."""
    res = {}
    last = None
    for line in out.splitlines():
        m = _LINE.match(line)
        if not m:
            continue
        off = int(m.group(1), 16)
        rest = m.group(2)
        parts = rest.split("\t")
        hexpart = parts[0].strip()
        toks = hexpart.split()
        nb = 0
        ok = True
        for t in toks:
            if _HEX.match(t):
                nb += 1
            elif re.match(r"^[0-9a-f]{4}$", t) or re.match(r"^[0-9a-f]{8}$", t):
                nb += len(t) // 2
            else:
                ok = False
                break
        if not ok or nb == 0:
            continue
        text = " ".join(p.strip() for p in parts[1:] if p.strip())
        if not text and last is not None and last[0] + last[1] == off:
            # continuation line of a long instruction (GNU objdump wraps the byte column)
            res[last[0]] = (last[1] + nb, res[last[0]][1])
            last = (last[0], last[1] + nb)
            continue
        res[off] = (nb, text)
        last = (off, nb)
    return res


def run_llvm(isa, blob, workdir, tag="b", spans=(), vma=0):
    cfg = ISAS[isa]
    path = os.path.join(workdir, "refdis-%s.elf" % tag)
    # ARM ELF mapping symbols ($a / $t) select the instruction set; other ISAs get plain local symbols
    pre = {"arm": "$a.", "arm:thumb": "$t."}.get(isa, "i")
    symbols = [("%s%d" % (pre, i), off) for i, (off, _) in enumerate(spans)]
    with open(path, "wb") as f:
        f.write(make_elf(blob, cfg["machine"], cfg.get("bits", 32), cfg.get("big", False), cfg.get("eflags", 0),
                         symbols))
    cmd = [LLVM_OBJDUMP, "-d", "-z", "--triple=" + cfg["triple"]]   # -z: do not elide runs of zero bytes
    if cfg.get("mattr"):
        cmd.append("--mattr=" + cfg["mattr"])
    if cfg.get("mcpu"):
        cmd.append("--mcpu=" + cfg["mcpu"])
    if vma:
        cmd.append("--adjust-vma=%#x" % vma)   # the blob is shown as if loaded at this address
    cmd += cfg.get("extra", []) + [path]
    r = subprocess.run(cmd, capture_output=True, text=True, timeout=600, errors="replace")
    try:
        os.unlink(path)
    except OSError:
        pass
    return r.returncode, r.stdout, r.stderr


def run_gnu_x86(blob, workdir, tag="g"):
    path = os.path.join(workdir, "refdis-%s.bin" % tag)
    with open(path, "wb") as f:
        f.write(blob)
    r = subprocess.run([GNU_OBJDUMP, "-D", "-z", "-b", "binary", "-m", "i386:x86-64", "-M", "intel", path],
                       capture_output=True, text=True, timeout=600, errors="replace")
    try:
        os.unlink(path)
    except OSError:
        pass
    return r.returncode, r.stdout, r.stderr


def decode(isa, chunks, workdir=None, tool="llvm", _depth=0, vma=0):
    """Decode a batch of byte strings; returns one Decoded per chunk (status 'missing' if the tool died)."""
    workdir = workdir or os.environ.get("VERIF_TMP") or "."
    blob, spans = layout(isa, chunks)
    out = [Decoded(o, s) for o, s in spans]
    if not chunks:
        return out
    if tool == "gnu":
        rc, so, se = run_gnu_x86(blob, workdir)
    else:
        rc, so, se = run_llvm(isa, blob, workdir, spans=spans, vma=vma)
    table = parse_objdump(so)
    if vma:
        table = {off - vma: v for off, v in table.items()}
    if rc != 0 and len(chunks) > 1 and _depth < 12:
        # the tool crashed somewhere in the batch (seen: llvm-objdump avr): bisect
        mid = len(chunks) // 2
        return (decode(isa, chunks[:mid], workdir, tool, _depth + 1)
                + decode(isa, chunks[mid:], workdir, tool, _depth + 1))
    if rc != 0:
        out[0].status = "tool-crash"
        return out
    for d in out:
        for off in range(d.offset, d.offset + max(d.size, 1)):
            if off in table:
                d.lines.append((off, table[off][0], table[off][1]))
        if d.offset in table:
            d.nbytes, d.text = table[d.offset]
            if is_invalid(d.text):
                d.status = "invalid"
            elif d.nbytes != d.size:
                d.status = "length"
            else:
                d.status = "ok"
        elif d.size == 0:
            d.status = "empty"
    return out


def is_invalid(text):
    t = text.strip().lower()
    return (not t) or "<unknown>" in t or t.startswith("(bad)") or t.startswith(".byte") or \
        t.startswith(".word") or t.startswith(".short") or t.startswith(".long") or "<undefined>" in t or \
        t.startswith(".inst")


# ---------------------------------------------------------------------------
# tokenizer / normaliser

_TOK = re.compile(r"""
      (?P<hex>-?0x[0-9a-fA-F]+)
    | (?P<num>-?\d+)
    | (?P<id>[%$]?[A-Za-z_.][A-Za-z_0-9.]*|\$\d+)
    | (?P<glyph>[\[\](){}+\-*,:#&@!=^])
    | (?P<ws>\s+)
    | (?P<other>.)
""", re.X)


def tokens(text):
    out = []
    for m in _TOK.finditer(text):
        k = m.lastgroup
        if k == "ws":
            continue
        out.append((k, m.group()))
    return out


def strip_comment(isa, text):
    # llvm-objdump comments: arm "@ ...", x86/riscv/mips "# ...", symbolised targets "<.text+0x12>"
    text = re.sub(r"<[^<>]*>", " ", text)
    if isa.startswith("arm"):
        text = text.split("@")[0]
    elif isa in ("x86_64", "mips", "riscv", "riscv:rvc"):
        text = text.split("#")[0] if isa != "mips" else text.split(" # ")[0]
    elif isa == "msp430":
        pass
    return text


def _xregs():
    abi = ["zero", "ra", "sp", "gp", "tp", "t0", "t1", "t2", "s0", "s1"] + ["a%d" % i for i in range(8)] + \
          ["s%d" % i for i in range(2, 12)] + ["t%d" % i for i in range(3, 7)]
    m = {n: "x%d" % i for i, n in enumerate(abi)}
    m["fp"] = "x8"
    fabi = ["ft%d" % i for i in range(8)] + ["fs0", "fs1"] + ["fa%d" % i for i in range(8)] + \
           ["fs%d" % i for i in range(2, 12)] + ["ft%d" % i for i in range(8, 12)]
    m.update({n: "f%d" % i for i, n in enumerate(fabi)})
    return m


def _mipsregs():
    names = ["zero", "at", "v0", "v1", "a0", "a1", "a2", "a3"] + ["t%d" % i for i in range(8)] + \
            ["s%d" % i for i in range(8)] + ["t8", "t9", "k0", "k1", "gp", "sp", "fp", "ra"]
    m = {n: "$%d" % i for i, n in enumerate(names)}
    m.update({"$" + n: "$%d" % i for i, n in enumerate(names)})
    m.update({"r%d" % i: "$%d" % i for i in range(32)})  # ppci prints r1, r6.. for unnamed registers
    m["s8"] = "$30"
    m["$s8"] = "$30"
    return m


# register spellings -> canonical name.  Justification per table.
REG_ALIASES = {
    # RISC-V psABI register names (ra = x1, sp = x2, ...): llvm prints ABI names, ppci prints x<n>
    "riscv": _xregs(),
    "riscv:rvc": _xregs(),
    # MIPS o32 names ($v0 = $2 ...): llvm prints numbers for most and names for sp/fp/ra; ppci prints names
    "mips": _mipsregs(),
    # ARM: r13 = sp, r14 = lr, r15 = pc (ARM ARM A2.3); sl/fp/ip are r10/r11/r12 (AAPCS)
    "arm": {"r13": "sp", "r14": "lr", "r15": "pc", "sl": "r10", "fp": "r11", "ip": "r12", "sb": "r9"},
    "arm:thumb": {"r13": "sp", "r14": "lr", "r15": "pc", "sl": "r10", "fp": "r11", "ip": "r12", "sb": "r9"},
    # MSP430: r0 = pc, r1 = sp, r2 = sr, r3 = cg (SLAU049 3.2)
    "msp430": {"pc": "r0", "sp": "r1", "sr": "r2", "cg": "r3"},
    # AVR: X = r27:r26, Y = r29:r28, Z = r31:r30, W = r25:r24 (word registers named by their low register)
    "avr": {"w": "r24", "x": "r26", "y": "r28", "z": "r30"},
    # m68k: llvm prints %d0; ppci prints D0
    "m68k": {},
    "x86_64": {},
}

# ppci prints avr word registers as "r17:r16"; llvm prints the low register "r16"
_AVR_PAIR = re.compile(r"\br(\d+):r(\d+)\b")

KEEP_KEYWORDS = {
    "arm": {"lsl", "lsr", "asr", "ror", "rrx"},
    "arm:thumb": {"lsl", "lsr", "asr", "ror"},
    "x86_64": {"cl", "rip"},
    "avr": set(),
    "msp430": set(),
    "m68k": {"pc"},
    "mips": set(),
    "riscv": set(),
    "riscv:rvc": set(),
}

# words of either side that carry no operand information (dropped); one justification each
DROP_WORDS = {
    # x86: llvm spells the memory operand size, ppci's syntax has no size keyword (C09 finding
    # x86-operand-size-not-printed); the size is not part of what ppci prints
    "x86_64": {"byte", "word", "dword", "qword", "xmmword", "ptr", "short"},
    # riscv: relocation operators in ppci's printed text (%pcrel_hi(label)) wrap the label operand
    "riscv": {"%pcrel_hi", "%pcrel_lo", "%hi", "%lo", "pcrel_hi", "pcrel_lo"},
    "riscv:rvc": {"%pcrel_hi", "%pcrel_lo", "%hi", "%lo", "pcrel_hi", "pcrel_lo"},
    # avr: ppci prints low(label)/high(label) around a label operand
    "avr": {"low", "high", "lo8", "hi8"},
}

_REGISTER_RE = {
    "riscv": re.compile(r"^(x([0-9]|[12][0-9]|3[01])|f([0-9]|[12][0-9]|3[01]))$"),
    "riscv:rvc": re.compile(r"^(x([0-9]|[12][0-9]|3[01])|f([0-9]|[12][0-9]|3[01]))$"),
    "arm": re.compile(r"^(r([0-9]|1[0-2])|sp|lr|pc|p(8|9|1[0-5])|c([0-9]|1[0-5])|[sdq]\d+|apsr_nzcv)$"),
    "arm:thumb": re.compile(r"^(r([0-9]|1[0-2])|sp|lr|pc)$"),
    "mips": re.compile(r"^\$([0-9]|[12][0-9]|3[01])$"),
    "msp430": re.compile(r"^r([0-9]|1[0-5])$"),
    "avr": re.compile(r"^r([0-9]|[12][0-9]|3[01])$"),
    "m68k": re.compile(r"^([ad][0-7]|sp|pc|ccr|sr)$"),
    "x86_64": re.compile(r"^(r[abcd]x|e[abcd]x|[abcd]x|[abcd][lh]|[re]?[sd]il?|[re]?[sb]pl?|r(8|9|1[0-5])[dwb]?|"
                         r"xmm([0-9]|1[0-5])|rip|[cdefgs]s|st\(?[0-7]?\)?)$"),
}

CSR_NAMES = {"mstatus", "mie", "mtvec", "mepc", "mcause", "mhartid", "frm", "cycle", "cycleh", "time", "timeh",
             "instret", "instreth", "fflags", "fcsr"}


def _canon_reg(isa, word):
    w = word.lower()
    if isa == "m68k" and w.startswith("%"):
        w = w[1:]
    w = REG_ALIASES.get(isa, {}).get(w, w)
    if _REGISTER_RE[isa].match(w):
        return w
    if isa.startswith("riscv") and w in CSR_NAMES:
        return w
    return None


def normalise(isa, text, labels=(), ref=False):
    """(mnemonic, [atoms]) or None when a token cannot be classified."""
    text = strip_comment(isa, text) if ref else text
    if isa == "avr":
        text = _AVR_PAIR.sub(lambda m: "r%s" % m.group(2), text)
    if isa == "avr" and ref:
        # llvm prints pc-relative targets as ".+N" / ".-N"
        text = text.replace(".+", " ").replace(".-", " -")
    if isa == "msp430" and ref:
        # llvm prints pc-relative jump targets as "$+2"; keep the number
        text = text.replace("$", "")
    toks = tokens(text.strip())
    if not toks:
        return None
    # mnemonic: leading identifier, possibly "name.suffix"
    k, v = toks[0]
    if k != "id":
        return None
    mnem = v.lower()
    atoms = []
    i = 1
    drop = DROP_WORDS.get(isa, ())
    keep = KEEP_KEYWORDS.get(isa, ())
    neg = False
    prev_glyph = None
    depth = 0          # inside [...]
    inner = 0          # atoms seen inside the current bracket
    while i < len(toks):
        k, v = toks[i]
        i += 1
        if k in ("hex", "num"):
            n = int(v, 16) if k == "hex" else int(v)
            if neg:
                n = -n
                neg = False
            if isa == "x86_64" and depth and n == 0 and inner:
                # [base + 0] is the effective address [base]; llvm omits a zero displacement
                continue
            if isa == "x86_64" and depth and prev_glyph == "*" and n == 1:
                continue   # index scale 1 is not spelled by llvm
            atoms.append(n)
            inner += 1 if depth else 0
        elif k == "id":
            lw = v.lower()
            if v in labels or lw in labels:
                atoms.append(("L", v))
                continue
            r = _canon_reg(isa, v)
            if r is not None:
                atoms.append(r)
                inner += 1 if depth else 0
            elif lw in drop:
                continue
            elif lw in keep:
                atoms.append(lw)
            else:
                return None
        elif k == "glyph":
            if v == "[":
                depth, inner = depth + 1, 0
            elif v == "]":
                depth = max(0, depth - 1)
            if v == "-" and i < len(toks) and toks[i][0] == "num" and not toks[i][1].startswith("-"):
                # "[r13 - 127]" (x86 intel syntax) / "Y+-32": sign belongs to the number
                neg = True
            elif v == "!" and isa.startswith("arm"):
                atoms.append("!")   # base register write-back is part of the operation
            elif v in "@&#(" and isa == "msp430":
                atoms.append(v)   # addressing mode glyphs are part of the operand kind
            elif v == "+" and isa in ("msp430", "avr") and prev_glyph != "num":
                atoms.append("+") if _postinc(toks, i) else None
            elif v == "-" and isa == "avr":
                atoms.append("-")  # pre-decrement
            prev_glyph = v
            continue
        else:
            return None
        prev_glyph = k
    return mnem, atoms


def _postinc(toks, i):
    """'+' that is a post-increment marker (end of operand), not an addition."""
    return i >= len(toks) or toks[i][0] == "glyph"


def norm_ref(isa, text):
    return normalise(isa, text, (), ref=True)


def norm_ppci(isa, text, labels=(), mnemonic=None):
    """`mnemonic`: the literal mnemonic element of the class's syntax.  Some ppci syntaxes lack the blank
    after it (`sdivR1,R2,R3`, C09 finding syntax-elements-glued); the separator is re-inserted here because
    C08 judges the encoding, not the spacing."""
    if mnemonic and text.startswith(mnemonic) and len(text) > len(mnemonic) and \
            (text[len(mnemonic)].isalnum() or text[len(mnemonic)] in "_-"):
        text = mnemonic + " " + text[len(mnemonic):]
    return normalise(isa, text, labels, ref=False)


# ---------------------------------------------------------------------------
# equivalences: ppci spelling -> reference spelling.  (mnemonic, arity) -> (function, justification)


def _rv(n):
    return "x%d" % n


def _riscv_rewrites():
    R = {}

    def add(mn, ar, fn, why):
        R[(mn, ar)] = (fn, why)

    add("mv", 2, lambda a: ("addi", [a[0], a[1], 0]), "RISC-V spec ch.25 pseudo: mv rd, rs = addi rd, rs, 0")
    add("nop", 0, lambda a: ("addi", ["x0", "x0", 0]), "pseudo: nop = addi x0, x0, 0")
    add("j", 1, lambda a: ("jal", ["x0", a[0]]), "pseudo: j off = jal x0, off")
    add("csrs", 2, lambda a: ("csrrs", ["x0", a[0], a[1]]), "pseudo: csrs csr, rs = csrrs x0, csr, rs")
    add("csrw", 2, lambda a: ("csrrw", ["x0", a[0], a[1]]), "pseudo: csrw csr, rs = csrrw x0, csr, rs")
    add("csrr", 2, lambda a: ("csrrs", [a[0], a[1], "x0"]), "pseudo: csrr rd, csr = csrrs rd, csr, x0")
    add("csrwi", 2, lambda a: ("csrrwi", ["x0", a[0], a[1]]), "pseudo: csrwi csr, imm = csrrwi x0, csr, imm")
    add("csrsi", 2, lambda a: ("csrrsi", ["x0", a[0], a[1]]), "pseudo: csrsi csr, imm = csrrsi x0, csr, imm")
    add("csrci", 2, lambda a: ("csrrci", ["x0", a[0], a[1]]), "pseudo: csrci csr, imm = csrrci x0, csr, imm")
    add("bgt", 3, lambda a: ("blt", [a[1], a[0], a[2]]), "pseudo: bgt rs, rt, off = blt rt, rs, off")
    add("ble", 3, lambda a: ("bge", [a[1], a[0], a[2]]), "pseudo: ble rs, rt, off = bge rt, rs, off")
    add("bgtu", 3, lambda a: ("bltu", [a[1], a[0], a[2]]), "pseudo: bgtu rs, rt, off = bltu rt, rs, off")
    add("bleu", 3, lambda a: ("bgeu", [a[1], a[0], a[2]]), "pseudo: bleu rs, rt, off = bgeu rt, rs, off")
    add("jalr", 3, lambda a: ("jalr", [a[0], a[2], a[1]]) if isinstance(a[2], int) else ("jalr", a),
        "RISC-V asm manual: `jalr rd, rs1, imm` is the three-operand spelling of `jalr rd, imm(rs1)`")
    add("addi", 2, lambda a: ("addi", [a[0], a[0], a[1]]),
        "ppci's Adrlrel prints `addi rd, label` for `addi rd, rd, %pcrel_lo(label)`: the printed destination is "
        "also the source; the rewrite demands rs1 == rd")
    for mn in ("c.slli", "c.srli", "c.srai", "c.andi", "c.addi"):
        add(mn, 3, lambda a, mn=mn: (mn, [a[0], a[2]]) if a[0] == a[1] else (mn, a),
            "RVC two-address form: ppci prints the destination twice (`c.addi rd, rd, imm`), llvm once; applied "
            "only when both printed registers are equal")
    add("c.addi4spn", 2, lambda a: ("c.addi4spn", [a[0], "x2", a[1]]),
        "c.addi4spn adds to sp by definition (RVC spec 16.5); ppci does not print the implicit sp, llvm does")
    add("c.addi16sp", 1, lambda a: ("c.addi16sp", ["x2", a[0]]),
        "c.addi16sp operates on sp by definition; ppci does not print the implicit sp, llvm does")
    for name in ("cycle", "cycleh", "time", "timeh", "instret", "instreth"):
        add("rd" + name, 1, lambda a, name=name: ("csrrs", [a[0], name, "x0"]),
            "pseudo: rd%s rd = csrrs rd, %s, x0" % (name, name))
    return R


ARM_CONDS = ("eq", "ne", "cs", "hs", "cc", "lo", "mi", "pl", "vs", "vc", "hi", "ls", "ge", "lt", "gt", "le", "")
ARM_SHIFTS = ("lsl", "lsr", "asr", "ror")


def _arm_rewrites():
    R = {}
    for c in ARM_CONDS:
        # ARM ARM A8.8.104 / UAL: MOV{c} Rd, Rm, <shift> #n is the pre-UAL spelling of <shift>{c} Rd, Rm, #n
        # (and LSL #0 is the identity: plain MOV).  llvm prints the UAL form.
        def mov4(a, c=c):
            if a[2] in ARM_SHIFTS and isinstance(a[3], int):
                if a[2] == "lsl" and a[3] == 0:
                    return ("mov" + c, [a[0], a[1]])
                return (a[2] + c, [a[0], a[1], a[3]])
            return ("mov" + c, a)
        R[("mov" + c, 4)] = (mov4, "UAL: MOV Rd, Rm, <shift> #n == <shift> Rd, Rm, #n; LSL #0 == MOV Rd, Rm")
    return R


def _arm_generic(mnem, atoms):
    """Spelling rules that depend on the operand shape, not on one mnemonic (ARM / Thumb)."""
    why = None
    # "..., Rm, lsl #0": LSL #0 is the identity shift; UAL (and llvm) omit it
    if len(atoms) >= 3 and atoms[-2:] == ["lsl", 0]:
        atoms, why = atoms[:-2], "LSL #0 is the identity shift and is omitted in UAL"
    # "[Rn, #0]" and "[Rn]" are the same addressing mode; llvm omits a zero offset
    if mnem[:3] in ("ldr", "str") and len(atoms) == 3 and atoms[2] == 0 and isinstance(atoms[1], str):
        atoms, why = atoms[:2], "[Rn, #0] == [Rn]: zero offset omitted"
    # "ldr Rt, label" is the literal form "ldr Rt, [pc, #off]"
    if mnem[:3] == "ldr" and len(atoms) == 2 and isinstance(atoms[1], tuple):
        atoms, why = [atoms[0], "pc", atoms[1]], "LDR (literal): label == [pc, #offset]"
    return mnem, atoms, why


def _thumb_rewrites():
    R = {}
    R[("mul", 2)] = (lambda a: ("mul", [a[1], a[0], a[1]]),
                     "ppci's documented Thumb syntax is `mul Rn, Rdm` (Rdm = Rn * Rdm); UAL spells the same T1 "
                     "encoding `muls Rdm, Rn, Rdm`")
    for mn in ("add", "sub"):
        R[(mn, 3)] = (lambda a, mn=mn: (mn, [a[0], a[2]]) if a[0] == a[1] == "sp" else (mn, a),
                      "ADD/SUB SP, SP, #imm == ADD/SUB SP, #imm: UAL permits omitting the repeated destination")
    R[("rsb", 2)] = (lambda a: ("rsb", [a[0], a[1], 0]),
                     "Thumb T1 RSBS Rd, Rn, #0 (NEG): ppci prints `rsb Rd, Rn`, the immediate is always 0")
    return R


# Thumb 16-bit data-processing encodings set the flags outside an IT block; pre-UAL Thumb syntax (which ppci
# prints) writes them without S, UAL (which llvm prints) with S (ARM ARM A4.2 / D7 "pre-UAL Thumb syntax")
THUMB_S = {"movs": "mov", "adds": "add", "subs": "sub", "muls": "mul", "ands": "and", "orrs": "orr", "eors": "eor",
           "lsls": "lsl", "lsrs": "lsr", "asrs": "asr", "rsbs": "rsb", "negs": "neg", "mvns": "mvn", "bics": "bic",
           "adcs": "adc", "sbcs": "sbc", "rors": "ror"}


REWRITES = {
    "arm:thumb": _thumb_rewrites(),
    "riscv": _riscv_rewrites(),
    "riscv:rvc": _riscv_rewrites(),
    "arm": _arm_rewrites(),
}

# plain mnemonic spellings: ppci -> reference, with justification
MNEMONIC_ALIASES = {
    "x86_64": {
        "jz": ("je", "Intel SDM: JZ and JE are the same opcode (0F 84)"),
        "jnz": ("jne", "Intel SDM: JNZ and JNE are the same opcode"),
        "jmpshort": ("jmp", "ppci spells JMP rel8 (opcode EB) `jmpshort`; llvm prints jmp"),
    },
    "arm": {
        "subcc": ("sublo", "ARM ARM A8.3: CC and LO name the same condition (C clear)"),
        "subcs": ("subhs", "ARM ARM A8.3: CS and HS name the same condition (C set)"),
        "bcc": ("blo", "CC == LO"), "bcs": ("bhs", "CS == HS"),
    },
    "arm:thumb": dict(
        [("bw", ("b.w", "ppci spells the 32-bit branch encodings (T3/T4) with a w suffix, UAL with .w"))]
        + [("b%sw" % c, ("b%s.w" % c, "32-bit conditional branch (T3): ppci suffix w == UAL .w"))
           for c in ("eq", "ne", "hs", "lo", "hi", "ls", "lt", "le", "gt", "ge", "mi", "pl", "vs", "vc")]),
    "msp430": {
        "jnz": ("jne", "SLAU049: JNE/JNZ one opcode"), "jz": ("jeq", "JEQ/JZ one opcode"),
        "jnc": ("jlo", "JNC/JLO one opcode"), "jc": ("jhs", "JC/JHS one opcode"),
    },
}


M68K_BASES = {"add", "and", "cmp", "eor", "move", "movea", "or", "sub", "neg", "not", "clr", "tst", "adda", "suba",
              "addi", "subi", "cmpi", "lsl", "lsr", "asl", "asr", "ext", "mulu", "muls", "divu", "divs"}


def _m68k_mnemonic(m):
    # MIT/GNU syntax spells the operand size as a suffix letter (addb), Motorola syntax (llvm) as .b/.w/.l;
    # MOVEA is MOVE with an address-register destination and llvm prints it as move
    if len(m) > 1 and m[-1] in "bwl" and m[:-1] in M68K_BASES:
        base = m[:-1]
        if base == "movea":
            base = "move"
        return base + "." + m[-1], "MIT size suffix == Motorola .size; MOVEA printed as MOVE by llvm"
    return m, None


def rewrite(isa, mnem, atoms):
    """Apply the equivalence table to ppci's normalised form."""
    why = None
    if isa == "m68k":
        mnem, why = _m68k_mnemonic(mnem)
    if isa == "msp430":
        atoms = _msp430_modes(atoms)
    r = REWRITES.get(isa, {}).get((mnem, len(atoms)))
    if r is not None:
        mnem, atoms = r[0](atoms)
        why = r[1]
    if isa.startswith("arm"):
        mnem, atoms, w2 = _arm_generic(mnem, atoms)
        why = w2 or why
    al = MNEMONIC_ALIASES.get(isa, {}).get(mnem)
    if al is not None:
        mnem, why = al[0], al[1]
    return mnem, atoms, why


def same(isa, p, r, label_ok=None):
    """Compare ppci's (rewritten) normal form with the reference's.

    A label atom matches one integer: any integer when the instance was encoded unrelocated (the field is
    filled at link time, C11), else one of ``label_ok`` (the symbol value or its pc-relative / hi-lo forms)."""
    pm, pa = canon(isa, *p)
    rm, ra = canon(isa, r[0], r[1], ref=True)
    if isa.startswith("arm") and pm == "adr" and rm in ("add", "sub") and len(ra) == 3 and ra[1] == "pc" \
            and isinstance(ra[2], int):
        # ADR Rd, label (ARM ARM A8.8.12) is ADD/SUB Rd, pc, #imm; llvm prints the add/sub form
        rm, ra = "adr", [ra[0], ra[2] if rm == "add" else -ra[2]]
    if pm != rm:
        return False, "operation %s vs %s" % (pm, rm)
    if len(pa) != len(ra):
        return False, "operand count %s vs %s" % (pa, ra)
    for i, (x, y) in enumerate(zip(pa, ra)):
        if isinstance(x, tuple) and x[0] == "L":
            if isinstance(y, int) and (label_ok is None or y in label_ok):
                continue
            return False, "operand %d: label %s vs %r (expected one of %s)" % (
                i, x[1], y, sorted(label_ok)[:6] if label_ok else "int")
        if x != y:
            return False, "operand %d: %r vs %r" % (i, x, y)
    return True, None


# MSP430 emulated instructions (SLAU049 table 3-17): llvm prints the emulated mnemonic, ppci the core instruction
MSP430_EMULATED = {
    "clr": ("mov", 0), "adc": ("addc", 0), "sbc": ("subc", 0), "tst": ("cmp", 0), "inv": ("xor", -1),
    "inc": ("add", 1), "incd": ("add", 2), "dec": ("sub", 1), "decd": ("sub", 2), "dadc": ("dadd", 0),
}


def _msp430_canon(mnem, atoms, ref=False):
    base, dot, size = mnem.partition(".")
    if size == "w":
        mnem, size = base, ""      # .w is the default operand size; llvm omits it
    if base in MSP430_EMULATED:
        core, const = MSP430_EMULATED[base]
        mnem = core + ("." + size if size else "")
        atoms = ["#", const] + list(atoms)
    elif base == "br":
        mnem, atoms = "mov", list(atoms) + ["r0"]            # BR dst == MOV dst, PC
    elif base == "ret":
        mnem, atoms = "mov", ["@", "r1", "+", "r0"]          # RET == MOV @SP+, PC
    elif base == "pop":
        mnem, atoms = "mov" + ("." + size if size else ""), ["@", "r1", "+"] + list(atoms)   # POP dst == MOV @SP+, dst
    elif base == "nop":
        mnem, atoms = "mov", ["#", 0, "r3"]                  # NOP == MOV #0, R3
    elif base in ("clrc", "clrz", "clrn", "dint", "setc", "setz", "setn", "eint"):
        bit = {"c": 1, "z": 2, "n": 4, "t": 8}[base[-1]]
        mnem, atoms = ("bic" if base in ("clrc", "clrz", "clrn", "dint") else "bis"), ["#", bit, "r2"]
    elif base in ("rla", "rlc") and len(atoms) >= 1:
        # RLA dst == ADD dst,dst; RLC dst == ADDC dst,dst
        mnem = ("add" if base == "rla" else "addc") + ("." + size if size else "")
        atoms = list(atoms) + list(atoms)
    atoms = list(atoms)
    if not ref:
        return mnem, atoms
    # reference side only: llvm prints some constant-generator encodings raw
    # constant generators (SLAU049 table 3-2): @r3+ = -1, @r3 = 2, @r2+ = 8, @r2 = 4 as source operand
    for pat, const in ((["@", "r3", "+"], -1), (["@", "r2", "+"], 8), (["@", "r3"], 2), (["@", "r2"], 4)):
        if atoms[:len(pat)] == pat:
            atoms = ["#", const] + atoms[len(pat):]
            break
    if atoms and atoms[0] == "r3" and atoms[1:2] != ["("]:
        atoms = ["#", 0] + atoms[1:]     # r3 read in register mode is the constant 0 (CG2, SLAU049 3.2.4)
    return mnem, atoms


def _msp430_modes(atoms):
    """ppci side only: X(r0) is symbolic mode (llvm prints the bare offset X); X(r2) is absolute mode &X
    (SLAU049 3.3: spellings of one addressing mode)."""
    out = []
    i = 0
    while i < len(atoms):
        a = atoms[i]
        if isinstance(a, (int, tuple)) and atoms[i + 1:i + 3] == ["(", "r0"]:
            out.append(a)
            i += 3
            continue
        if isinstance(a, (int, tuple)) and atoms[i + 1:i + 3] == ["(", "r2"]:
            out.extend(["&", a])
            i += 3
            continue
        out.append(a)
        i += 1
    return out


def _regnum(name):
    m = re.search(r"(\d+)$", name)
    return {"sp": 13, "lr": 14, "pc": 15}.get(name, int(m.group(1)) if m else 99)


def canon(isa, mnem, atoms, ref=False):
    """Spelling-independent form applied to BOTH sides."""
    if isa == "x86_64":
        if mnem == "movabs":
            mnem = "mov"    # llvm's spelling of MOV r64, imm64 (REX.W B8+r); Intel SDM: MOV
        if mnem in ("movsb", "movsw", "movsd", "movsq", "stosb", "lodsb", "cmpsb", "scasb") and \
                atoms and all(a in ("es", "rdi", "rsi", "ds", "al") for a in atoms):
            atoms = []      # string instructions have implicit operands only; llvm spells them out
    if isa == "msp430":
        mnem, atoms = _msp430_canon(mnem, atoms, ref)
    if isa == "m68k":
        # a label operand is the PC-relative mode (d16,PC); llvm spells the mode, ppci prints the label only
        atoms = [a for i, a in enumerate(atoms) if not (a == "pc" and i and isinstance(atoms[i - 1], (int, tuple)))]
    if isa == "avr":
        # AVR instruction set manual: LSL Rd == ADD Rd,Rd; ROL Rd == ADC Rd,Rd; TST Rd == AND Rd,Rd;
        # CLR Rd == EOR Rd,Rd (same opcodes); llvm prints the one-operand alias when both registers are equal
        one = {"lsl": "add", "rol": "adc", "tst": "and", "clr": "eor"}
        if mnem in one and len(atoms) == 1:
            mnem, atoms = one[mnem], [atoms[0], atoms[0]]
    if isa == "arm:thumb" and mnem in THUMB_S:
        mnem = THUMB_S[mnem]
    if isa == "arm" and mnem.startswith("mrc"):
        # MRC with Rt = 15 writes the APSR flags (ARM ARM A8.8.108); llvm spells that register apsr_nzcv
        atoms = ["pc" if a == "apsr_nzcv" else a for a in atoms]
    if isa.startswith("arm") and mnem in ("stmdb", "ldm", "ldmia") and atoms[:2] == ["sp", "!"]:
        # ARM ARM A8.8.133/A8.8.132: PUSH/POP <registers> are STMDB SP!/LDM SP!, <registers>; llvm prints the
        # STM/LDM spelling for one-register lists
        mnem, atoms = ("push" if mnem == "stmdb" else "pop"), atoms[2:]
    if isa.startswith("arm") and mnem in ("push", "pop", "ldm", "stm", "ldmia", "stmdb", "ldmfd", "stmfd"):
        # a register list is a set (encoded as a bit mask): order of spelling carries no information
        regs = sorted((a for a in atoms if isinstance(a, str)), key=_regnum)
        atoms = regs + [a for a in atoms if not isinstance(a, str)]
    return mnem, atoms


def table_size(isa):
    return (len(REWRITES.get(isa, {})) + len(MNEMONIC_ALIASES.get(isa, {})) + len(REG_ALIASES.get(isa, {}))
            + len(DROP_WORDS.get(isa, ())) + (len(THUMB_S) if isa == "arm:thumb" else 0))
