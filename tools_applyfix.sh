#!/bin/sh
# tools_applyfix.sh <key> "<pytest paths>" "<commit subject>" "<commit body>"
# maintainer tool: applies proposed_fixes/<key>.diff to /repo, runs the given repo tests, commits as fix:, flips the finding to fixed.
key="$1"; tests="$2"; subj="$3"; body="$4"
cd /repo || exit 1
git apply "/verif/proposed_fixes/$key.diff" || { echo "APPLY FAILED $key"; exit 1; }
out=$(/venv/bin/python -m pytest -q -p no:cacheprovider -x $tests 2>&1 | tail -1)
echo "$key tests: $out"
case "$out" in *failed*|*error*) echo "TESTS FAILED, reverting"; git checkout -- .; exit 1;; esac
git commit -qam "fix: $subj

$body" || exit 1
c=$(git rev-parse --short HEAD)
/venv/bin/python - "$key" "$c" <<'PY'
import json,glob,sys
key,commit=sys.argv[1:3]
for f in glob.glob('/verif/known_findings.d/*.json'):
    d=json.load(open(f)); ch=False
    for e in d['findings']:
        if e['key']==key:
            e['status']='fixed'; e['commit']=commit
            e['record']='fixed: property=%s %s %s'%(e['property'],commit,(e.get('witness') or e.get('mechanism') or '')[:300])
            ch=True
    if ch: json.dump(d,open(f,'w'),indent=1); print('flipped',key,'in',f,commit)
PY
