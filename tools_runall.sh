#!/bin/sh
# tools_runall.sh [tier] : every registered check once (seed from VERIF_SEED), summary in .work/runall-<tier>.log
tier="${1:-quick}"; log=/verif/.work/runall-$tier.log; : > "$log"
for id in $(/venv/bin/python -c "import json;print(' '.join(c['property_id'] for c in json.load(open('/verif/MANIFEST.json'))['checks']))"); do
  t0=$(date +%s)
  out=$(./check "$id" --tier "$tier" 2>&1 | grep -v "^WARNING" | tail -3 | cut -c1-300)
  rc=$?
  last=$(printf '%s\n' "$out" | tail -1)
  echo "$id $(($(date +%s)-t0))s :: $last" | tee -a "$log"
  printf '%s\n' "$out" | grep -q "VIOLATION\|INCONCLUSIVE" && printf '%s\n' "$out" >> "$log"
done
grep -c "held on" "$log"
