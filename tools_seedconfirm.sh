#!/bin/sh
# tools_seedconfirm.sh <Cxx> [seed-name]: confirm a seeded change in its scratch worktree /tmp/seed-<name>, keep it under seeded/<name>/
id="$1"; name="${2:-$1}"; wt=/tmp/seed-$name
cd "$wt" || exit 1
PY="env PYTHONPATH=$wt /venv/bin/python"
git diff -- ppci > OUT/patch.confirm.diff
[ -s OUT/patch.confirm.diff ] || { echo "no change in worktree"; exit 1; }
$PY OUT/demo.py > OUT/demo.with.txt 2>&1; with=$?
# (no git stash: the stash is shared by all worktrees of the repository)
patch -R -p1 -s < OUT/patch.confirm.diff || { echo "cannot reverse the change"; exit 1; }
$PY OUT/demo.py > OUT/demo.without.txt 2>&1; without=$?
patch -p1 -s < OUT/patch.confirm.diff || { echo "cannot re-apply the change"; exit 1; }
echo "demo: with change exit=$with, without exit=$without"
t=$($PY -m pytest -q -p no:cacheprovider --timeout=900 -n 6 test/ 2>&1 | tail -1)
echo "tests with change: $t"
mkdir -p /verif/seeded/$name
cp OUT/patch.confirm.diff /verif/seeded/$name/patch.diff
cp OUT/demo.py /verif/seeded/$name/demo.py
/venv/bin/python - "$id" "$name" "$with" "$without" "$t" <<'PY'
import json,sys,os
id,name,w,wo,t=sys.argv[1:6]
src='/tmp/seed-%s/OUT/meta.json'%name
try: m=json.load(open(src))
except Exception as e: m={"property":id,"summary":"(meta.json of the seeding agent unreadable: %s)"%e}
m["property"]=id
m["confirmed_by_maintainer"]={"demo_exit_with_change":int(w),"demo_exit_without_change":int(wo),"test_suite_with_change":t,
  "commands":["PYTHONPATH=<worktree> /venv/bin/python OUT/demo.py (with change, then with the change stashed)",
              "PYTHONPATH=<worktree> /venv/bin/python -m pytest -q -p no:cacheprovider --timeout=900 -n 6 test/"]}
json.dump(m,open('/verif/seeded/%s/meta.json'%name,'w'),indent=1)
PY
case "$t" in *failed*|*error*) echo "NOT KEPT: tests fail"; exit 2;; esac
[ "$with" != 0 ] && [ "$without" = 0 ] || { echo "NOT CONFIRMED: demo does not discriminate"; exit 2; }
echo confirmed
